#!/usr/bin/env python3
"""Regenerates MANIFEST.json from checks_conf.py (single source of truth)."""
import json, subprocess, sys
sys.path.insert(0, '/verif')
from checks_conf import CHECKS, ENGINES, PENDING_REASON

ALL = ["C%02d" % i for i in range(1, 21)]
hooks_commits = subprocess.run(["git", "-C", "/repo", "log", "--format=%H %s"], capture_output=True, text=True).stdout.splitlines()
src = [l.split()[0] for l in hooks_commits if "verif hook" in l]

m = {
    "version": 1,
    "setup_cmd": "./check --setup",
    "hooks": {
        "guard": "verif",
        "enable": "go test -tags verif (the driver builds /verif/harness against /repo's working tree with -tags verif)",
        "baseline_off_cmd": "./check --baseline-off",
        "source_commits": src,
        "add_only": True,
    },
    "engines": ENGINES,
    "checks": [],
    "notes": "All checks are property-based tests (pgregory.net/rapid v1.3.0, plus go native fuzzing for C09 thorough) run by ./check; see DESIGN.md. known_findings.json lists genuine defects (fixed: / known:).",
    "not_applicable": [],
}
for pid in ALL:
    c = CHECKS.get(pid)
    if not c or c.get("disabled"):
        m["not_applicable"].append({"property_id": pid, "reason": (c or {}).get("disabled") or PENDING_REASON})
        continue
    m["checks"].append({
        "property_id": pid,
        "quick_cmd": "./check %s --tier quick" % pid,
        "thorough_cmd": "./check %s --tier thorough" % pid,
        "evidence_file": "/verif/evidence/%s.json" % pid,
        "replay_cmd_template": "./check %s --replay {path}" % pid,
        "engine": c["engine"],
        "level_claimed": {"category": c.get("level", "exploration"), "text": c["level_text"], "design_ref": "DESIGN.md section 4, " + pid},
        "level_note": c["level_note"],
        "technique": c["technique"],
    })
json.dump(m, open('/verif/MANIFEST.json', 'w'), indent=1)
print("MANIFEST.json:", len(m["checks"]), "checks,", len(m["not_applicable"]), "not applicable")
