#!/bin/bash
# Runs every quick check at several seeds on the unchanged tree; prints anything that is not OK.
seeds="${SEEDS:-11 12 13}"
for s in $seeds; do
  for c in C01 C02 C03 C04 C05 C06 C07 C08 C09 C10 C11 C12 C13 C14 C15 C16 C17 C18 C19 C20; do
    out=$(VERIF_SEED=$s ./check $c --tier ${TIER:-quick} 2>/tmp/sweep-$c-$s.err); rc=$?
    echo "seed=$s $c rc=$rc $(echo "$out" | grep -v KNOWN-FINDING | tail -1)"
    if [ $rc -ne 0 ]; then tail -30 /tmp/sweep-$c-$s.err; fi
  done
done
