//go:build verif

package harness

import (
	"bytes"
	"crypto/sha256"
	"os"
	"strings"

	ethcrypto "github.com/ethereum/go-ethereum/crypto"
	"github.com/holiman/uint256"
	ctypes "github.com/rigochain/rigo-go/ctrlers/types"
	tmjson "github.com/tendermint/tendermint/libs/json"
)

func tmjsonUnmarshal(bz []byte, v interface{}) error { return tmjson.Unmarshal(bz, v) }

func paramsFromGovLoose(g *ctypes.GovParams) *Params {
	bz, err := tmjson.Marshal(g)
	if err != nil {
		panic(err)
	}
	p, err := parseParams(bz)
	if err != nil {
		panic(err)
	}
	return p
}

func txHashOf(raw []byte) []byte { h := sha256.Sum256(raw); return h[:] }

// TxOutcome is what the model learnt about one delivered tx (for labels/samples).
type TxOutcome struct {
	Type    int32
	OK      bool
	Reason  string // coarse failure class from the log (labels only, never an oracle)
	Decoded bool
	Late    bool // failed inside a controller / the EVM, after signature+nonce+funds checks
}

func classifyLog(log string) string {
	l := strings.ToLower(log)
	switch {
	case strings.Contains(l, "invalid nonce"):
		return "nonce"
	case strings.Contains(l, "insufficient fund"):
		return "funds"
	case strings.Contains(l, "invalid gas price"), strings.Contains(l, "gas price"):
		return "gasprice"
	case strings.Contains(l, "invalid gas"), strings.Contains(l, "too small gas"):
		return "gas"
	case strings.Contains(l, "signature"), strings.Contains(l, "wrong address or sig"), strings.Contains(l, "recovery failed"), strings.Contains(l, "invalid transaction signature"):
		return "sig"
	case strings.Contains(l, "not found account"):
		return "noaccount"
	case strings.Contains(l, "updatable"), strings.Contains(l, "stakelimiter"):
		return "limiter"
	case strings.Contains(l, "not found stake"), strings.Contains(l, "not stake owner"):
		return "nostake"
	case strings.Contains(l, "not found delegatee"):
		return "nodelegatee"
	case strings.Contains(l, "no right"):
		return "noright"
	case strings.Contains(l, "voting period"):
		return "notvotingperiod"
	case strings.Contains(l, "insufficient reward"), strings.Contains(l, "not found result"):
		return "reward"
	case strings.Contains(l, "revert"), strings.Contains(l, "out of gas"), strings.Contains(l, "invalid opcode"), strings.Contains(l, "invalid jump"), strings.Contains(l, "stack"):
		return "evm"
	case strings.Contains(l, "payload"), strings.Contains(l, "invalid transaction"):
		return "payload"
	case strings.Contains(l, "invalid address"):
		return "address"
	default:
		return "other"
	}
}

// ApplyTx feeds one delivered transaction and its observed result to the model.
func (w *World) ApplyTx(raw []byte, res TxResult) TxOutcome {
	h := w.curH
	out := TxOutcome{}
	tx := &ctypes.Trx{}
	if xerr := tx.Decode(raw); xerr != nil {
		if res.Code == 0 {
			w.fail("C09", "undecodable tx accepted")
		}
		out.Reason = "undecodable"
		return out
	}
	out.Decoded = true
	out.Type = tx.Type
	w.txIdx++
	// (an accepted transfer to an ex-contract that was charged like a native tx took the native path)
	exNative := tx.Type == ctypes.TRX_TRANSFER && len(tx.To) == 20 && w.Dead[ak(tx.To)] && res.Code == 0 && uint64(res.GasUsed) == tx.Gas
	if w.EVM != nil && w.isContractPath(tx) && !(exNative && !w.EVM.hasCode(tx.To)) {
		w.txIdx--
		w.applyEVMTx(tx, raw, res, &out)
		w.txIdx++
		return out
	}
	if res.Code != 0 {
		out.Reason = classifyLog(res.Log)
		switch out.Reason {
		case "sig", "nonce", "funds", "gas", "gasprice", "noaccount", "address", "undecodable":
		default:
			out.Late = true
		}
		return out
	}
	out.OK = true
	p := w.Params
	hash := txHashOf(raw)

	// ---- necessary conditions common to every successful tx ----
	if len(tx.From) != 20 || len(tx.To) != 20 {
		w.fail("C09", "tx with malformed address accepted")
		return out
	}
	if !sigRecovers(tx, w.ChainID) {
		w.fail("C03", "tx %x accepted although its signature does not recover the sender for chain %q", hash[:6], w.ChainID)
	}
	if prev, dup := w.succeeded[hx(hash)]; dup {
		w.fail("C04", "tx %x succeeded twice (first at height %d)", hash[:6], prev)
	}
	w.succeeded[hx(hash)] = h
	if !w.hasAcct(tx.From) {
		w.fail("C04", "tx from unknown account %x accepted", tx.From)
	}
	snd := w.acct(tx.From)
	if tx.Nonce != snd.Nonce {
		w.fail("C04", "tx %x accepted with nonce %d, account nonce is %d", hash[:6], tx.Nonce, snd.Nonce)
	}
	if tx.GasPrice.Cmp(p.gasPrice()) != 0 {
		w.fail("C16", "tx accepted with gas price %s, active price %s", tx.GasPrice.Dec(), p.GasPrice)
	}
	feeLimit, ovf := new(uint256.Int).MulOverflow(tx.GasPrice, u256(tx.Gas))
	if ovf {
		w.fail("C16", "gas*price overflows for an accepted tx")
	}
	if feeLimit.Cmp(p.minTrxFee()) < 0 {
		w.fail("C16", "tx accepted with gas*price %s below the minimum fee %s", feeLimit.Dec(), p.minTrxFee().Dec())
	}
	need, ovf2 := new(uint256.Int).AddOverflow(feeLimit, tx.Amount)
	if ovf2 || need.Cmp(snd.Bal) > 0 {
		w.fail("C02", "tx %x accepted without funds: needs %s has %s", hash[:6], need.Dec(), snd.Bal.Dec())
	}

	contractPath := tx.Type == ctypes.TRX_CONTRACT
	if tx.Type == ctypes.TRX_TRANSFER {
		if rc, ok := w.Accts[ak(tx.To)]; ok && rc.Code != nil {
			contractPath = true
			if w.Dead[ak(tx.To)] {
				// a transfer to an address whose contract self-destructed: no property says which path it takes
				// (it is a plain account for the EVM); the charge must be exact for the path the node reports.
				contractPath = uint64(res.GasUsed) != tx.Gas
				w.Feat["transfer_to_ex_contract"]++
			}
		}
	}

	// ---- fee ----
	var fee *uint256.Int
	if contractPath {
		if res.GasUsed < 0 || uint64(res.GasUsed) > tx.Gas {
			w.fail("C16", "contract tx used gas %d above its limit %d", res.GasUsed, tx.Gas)
		}
		fee = new(uint256.Int).Mul(u256(uint64(res.GasUsed)), p.gasPrice())
	} else {
		if uint64(res.GasUsed) != tx.Gas || uint64(res.GasWanted) != tx.Gas {
			w.fail("C16", "native tx: gasUsed=%d gasWanted=%d gas limit=%d", res.GasUsed, res.GasWanted, tx.Gas)
		}
		fee = feeLimit.Clone()
	}
	w.feeSum.Add(w.feeSum, fee)
	snd.Bal = subSat(snd.Bal, fee)
	snd.Nonce++
	w.cause(tx.From, "fee")

	switch tx.Type {
	case ctypes.TRX_TRANSFER:
		snd.Bal = subSat(snd.Bal, tx.Amount)
		rc := w.acct(tx.To)
		rc.Bal.Add(rc.Bal, tx.Amount)
		w.cause(tx.From, "transfer")
		w.cause(tx.To, "transfer")
		w.Feat["ok_transfer"]++
		if contractPath {
			w.Feat["ok_transfer_to_contract"]++
			w.afterTemplateCall(tx)
		}
	case ctypes.TRX_SETDOC:
		if pl, ok := tx.Payload.(*ctypes.TrxPayloadSetDoc); ok {
			snd.Name, snd.Doc = pl.Name, pl.URL
		}
		w.Feat["ok_setdoc"]++
	case ctypes.TRX_STAKING:
		w.applyStaking(tx, hash, res)
	case ctypes.TRX_UNSTAKING:
		w.applyUnstaking(tx, hash)
	case ctypes.TRX_WITHDRAW:
		w.applyWithdraw(tx)
	case ctypes.TRX_PROPOSAL:
		w.applyProposal(tx, hash)
	case ctypes.TRX_VOTING:
		w.applyVoting(tx)
	case ctypes.TRX_CONTRACT:
		w.applyContract(tx, hash, res)
	default:
		w.fail("C09", "tx of unknown type %d accepted", tx.Type)
	}
	return out
}

func subSat(a, b *uint256.Int) *uint256.Int {
	if b.Cmp(a) > 0 {
		return u256(0)
	}
	return new(uint256.Int).Sub(a, b)
}

func (w *World) applyStaking(tx *ctypes.Trx, hash []byte, res TxResult) {
	h := w.curH
	snd := w.acct(tx.From)
	q, r := new(uint256.Int).DivMod(tx.Amount, oneRigo, new(uint256.Int))
	if !r.IsZero() || q.IsZero() || !q.IsUint64() || q.Uint64() > 1<<62 {
		w.fail("C11", "staking of %s accepted (not a positive whole number of power units)", tx.Amount.Dec())
		return
	}
	power := int64(q.Uint64())
	snd.Bal = subSat(snd.Bal, tx.Amount)
	w.cause(tx.From, "stake")
	d, ok := w.Delegs[ak(tx.To)]
	self := bytes.Equal(tx.From, tx.To)
	if !ok {
		if !self {
			w.fail("C11", "delegation to non-existent delegatee %x accepted", tx.To)
			return
		}
		pub := w.pubOf(tx)
		d = &MDeleg{Addr: append([]byte(nil), tx.To...), Pub: pub}
		w.Delegs[ak(tx.To)] = d
		if w.delegDeletedThisBlock[ak(tx.To)] {
			w.Feat["delegatee_recreated_same_block"]++
		}
		w.Feat["delegatee_created"]++
	}
	d.Stakes = append(d.Stakes, &MStake{Owner: append([]byte(nil), tx.From...), To: d.Addr, TxHash: hash, Power: power, Start: h + 1})
	w.touchDeleg(tx.To)
	if self {
		w.Feat["ok_selfstake"]++
	} else {
		w.Feat["ok_delegate"]++
	}
}

func (w *World) pubOf(tx *ctypes.Trx) []byte {
	pre, xerr := ctypes.PreImageToSignTrxRLP(tx, w.ChainID)
	if xerr != nil || len(tx.Sig) != 65 {
		return nil
	}
	hh := sha256.Sum256(pre)
	pub, err := ethcrypto.SigToPub(hh[:], tx.Sig)
	if err != nil {
		return nil
	}
	return ethcrypto.CompressPubkey(pub)
}

func (w *World) touchDeleg(addr []byte) {
	if w.delegOps == nil {
		w.delegOps = map[string]int{}
	}
	w.delegOps[ak(addr)]++
	if w.delegOps[ak(addr)] == 2 {
		w.Feat["multi_op_same_delegatee_block"]++
	}
}

func (w *World) applyUnstaking(tx *ctypes.Trx, hash []byte) {
	h := w.curH
	p := w.Params
	pl, ok := tx.Payload.(*ctypes.TrxPayloadUnstaking)
	if !ok {
		w.fail("C12", "unstaking without payload accepted")
		return
	}
	d, ok := w.Delegs[ak(tx.To)]
	if !ok {
		w.fail("C12", "unstaking from non-existent delegatee %x accepted", tx.To)
		return
	}
	idx := -1
	for i, s := range d.Stakes {
		if bytes.Equal(s.TxHash, pl.TxHash) {
			idx = i
			break
		}
	}
	if idx < 0 {
		w.fail("C12", "unstaking of stake %x which is not bonded to %x accepted", pl.TxHash, tx.To)
		return
	}
	s := d.Stakes[idx]
	if !bytes.Equal(s.Owner, tx.From) {
		w.fail("C12", "stake %x of owner %x released by %x", s.TxHash[:6], s.Owner, tx.From)
	}
	d.Stakes = append(d.Stakes[:idx:idx], d.Stakes[idx+1:]...)
	w.release(s, h, p.LazyRewardBlocks)
	w.Feat["ok_unstake"]++
	w.touchDeleg(tx.To)
	if d.self() == 0 {
		if len(d.Stakes) > 0 {
			w.Feat["forced_unbonding"]++
		}
		for _, s2 := range d.Stakes {
			w.release(s2, h, p.LazyRewardBlocks)
		}
		d.Stakes = nil
	}
	if d.total() == 0 {
		delete(w.Delegs, ak(tx.To))
		if w.delegDeletedThisBlock == nil {
			w.delegDeletedThisBlock = map[string]bool{}
		}
		w.delegDeletedThisBlock[ak(tx.To)] = true
		w.Feat["delegatee_deleted"]++
		if len(w.delegDeletedThisBlock) == 2 {
			w.Feat["delegatees_deleted_same_block"]++
		}
	}
	unb := 0
	for range w.Unbonding {
		unb++
	}
	if unb >= 2 {
		w.Feat["concurrent_unbonding"]++
	}
}

func (w *World) applyWithdraw(tx *ctypes.Trx) {
	pl, ok := tx.Payload.(*ctypes.TrxPayloadWithdraw)
	if !ok || pl.ReqAmt == nil {
		w.fail("C13", "withdraw without payload accepted")
		return
	}
	if !tx.Amount.IsZero() {
		// moving an amount with a withdraw tx is not described by any property; account for it as a burn would hide it
		w.fail("C02", "withdraw tx with non-zero amount accepted")
	}
	rw, ok := w.Rewards[ak(tx.From)]
	if !ok {
		w.fail("C13", "withdraw by %x accepted although nothing was ever issued to it", tx.From)
		return
	}
	if pl.ReqAmt.Cmp(rw.Cum) > 0 {
		w.fail("C13", "withdraw of %s accepted, withdrawable is %s", pl.ReqAmt.Dec(), rw.Cum.Dec())
	}
	rw.Cum = subSat(rw.Cum, pl.ReqAmt)
	if rw.Height < w.curH {
		rw.Withdrawn = pl.ReqAmt.Clone()
		rw.Height = w.curH
	} else {
		rw.Withdrawn = new(uint256.Int).Add(rw.Withdrawn, pl.ReqAmt)
	}
	a := w.acct(tx.From)
	a.Bal.Add(a.Bal, pl.ReqAmt)
	w.cause(tx.From, "withdraw")
	w.Withdrawn.Add(w.Withdrawn, pl.ReqAmt)
	w.Feat["ok_withdraw"]++
	if w.withdrawsThisBlock == nil {
		w.withdrawsThisBlock = map[string]int{}
	}
	w.withdrawsThisBlock[ak(tx.From)]++
	if w.withdrawsThisBlock[ak(tx.From)] == 2 && !w.issuedBlock.IsZero() {
		w.Feat["issuance_and_2_withdrawals"]++
	}
}

func (w *World) applyProposal(tx *ctypes.Trx, hash []byte) {
	h := w.curH
	p := w.Params
	pl, ok := tx.Payload.(*ctypes.TrxPayloadProposal)
	if !ok {
		w.fail("C15", "proposal without payload accepted")
		return
	}
	if pl.StartVotingHeight <= h {
		w.fail("C15", "proposal accepted with start height %d <= current %d", pl.StartVotingHeight, h)
	}
	if pl.VotingPeriodBlocks > p.MaxVotingPeriodBlocks || pl.VotingPeriodBlocks < p.MinVotingPeriodBlocks {
		w.fail("C15", "proposal accepted with voting period %d outside [%d,%d]", pl.VotingPeriodBlocks, p.MinVotingPeriodBlocks, p.MaxVotingPeriodBlocks)
	}
	end := pl.StartVotingHeight + pl.VotingPeriodBlocks
	if end < pl.StartVotingHeight {
		w.fail("C15", "proposal accepted with overflowing end height")
	}
	if pl.ApplyingHeight < end+p.LazyApplyingBlocks || pl.ApplyingHeight < end {
		w.fail("C15", "proposal accepted with applying height %d before end %d + lazy %d", pl.ApplyingHeight, end, p.LazyApplyingBlocks)
	}
	if len(pl.Options) == 0 {
		w.fail("C15", "proposal without options accepted")
	}
	pr := &MProposal{TxHash: hash, Start: pl.StartVotingHeight, End: end, Apply: pl.ApplyingHeight,
		Voters: nil, Options: pl.Options, Votes: make([]int64, len(pl.Options)), OptType: pl.OptType, Major: -1, SubmitHeight: h}
	pr.proposer = append([]byte(nil), tx.From...)
	w.Open[hx(hash)] = pr
	w.everProposals[hx(hash)] = true
	w.newProposals = append(w.newProposals, pr)
	w.Feat["ok_proposal"]++
	for _, o := range pl.Options {
		for _, d := range hostileDocs {
			if d == string(o) && d != "{}" {
				w.Feat["ok_proposal_with_hostile_option_document"]++
				if os.Getenv("VERIF_DOC_STATS") != "" {
					w.Feat["hostile_proposed:"+d]++
				}
			}
		}
	}
}

func (w *World) applyVoting(tx *ctypes.Trx) {
	h := w.curH
	pl, ok := tx.Payload.(*ctypes.TrxPayloadVoting)
	if !ok {
		w.fail("C15", "vote without payload accepted")
		return
	}
	pr, ok := w.Open[hx(pl.TxHash)]
	if !ok {
		w.fail("C15", "vote on unknown/closed proposal %x accepted", pl.TxHash)
		return
	}
	if h < pr.Start || h > pr.End {
		w.fail("C15", "vote accepted at height %d outside window [%d,%d]", h, pr.Start, pr.End)
	}
	if pl.Choice < 0 || int(pl.Choice) >= len(pr.Options) {
		w.fail("C15", "vote with choice %d accepted (%d options)", pl.Choice, len(pr.Options))
		return
	}
	if pr.Voters == nil {
		// proposal submitted earlier in this very block: snapshot not read back yet
		w.PreMiss["C15:vote_before_snapshot_known"]++
		pr.earlyVotes = append(pr.earlyVotes, earlyVote{From: append([]byte(nil), tx.From...), Choice: pl.Choice})
		return
	}
	v, ok := pr.Voters[ak(tx.From)]
	if !ok {
		w.fail("C15", "vote by %x accepted, not in the proposal's recorded voters", tx.From)
		return
	}
	hadLead := leadingOption(pr) >= 0
	if v.Choice >= 0 {
		pr.Votes[v.Choice] -= v.Power
		w.Feat["revote"]++
	}
	v.Choice = pl.Choice
	pr.Votes[v.Choice] += v.Power
	w.Feat["ok_vote"]++
	if hadLead && leadingOption(pr) < 0 {
		w.Feat["revote_took_majority_away"]++
	}
	for _, x := range pr.Votes {
		if x == pr.Majority && pr.Total > 0 {
			w.Feat["tally_exactly_at_majority"]++
			break
		}
	}
}

func (w *World) applyContract(tx *ctypes.Trx, hash []byte, res TxResult) {
	snd := w.acct(tx.From)
	snd.Bal = subSat(snd.Bal, tx.Amount)
	w.cause(tx.From, "contract")
	w.cause(tx.To, "contract")
	if isZero20(tx.To) {
		caddr := ethcrypto.CreateAddress(toArr20(tx.From), tx.Nonce)
		c := w.acct(caddr[:])
		c.Bal.Add(c.Bal, tx.Amount)
		c.Nonce = 1
		c.Code = hash
		w.Contracts[ak(caddr[:])] = "deployed"
		if pl, ok := tx.Payload.(*ctypes.TrxPayloadContract); ok && bytes.Equal(pl.Data, initCodeFor(suiciderRuntime)) {
			w.Contracts[ak(caddr[:])] = "suicider"
		} else if ok && bytes.Equal(pl.Data, initCodeFor(burnerRuntime)) {
			w.Contracts[ak(caddr[:])] = "burner"
		}
		w.Feat["ok_deploy"]++
	} else {
		rc := w.acct(tx.To)
		rc.Bal.Add(rc.Bal, tx.Amount)
		w.Feat["ok_call"]++
		w.afterTemplateCall(tx)
	}
}

// afterTemplateCall applies the known effect of the fixed contract templates beyond the value transfer:
// the "suicider" (CALLER SELFDESTRUCT) pays its whole balance to the caller and ceases to exist.
func (w *World) afterTemplateCall(tx *ctypes.Trx) {
	k := ak(tx.To)
	if w.Contracts[k] == "burner" {
		// self-destruct into itself: the balance (including what this call brought) is burnt - the one way
		// the EVM destroys value by definition; accounted like slashed stake in the conservation sum
		rc := w.acct(tx.To)
		w.Slashed.Add(w.Slashed, rc.Bal)
		rc.Bal, rc.Nonce = u256(0), 0
		delete(w.Contracts, k)
		w.Dead[k] = true
		w.Feat["evm_burn"]++
		return
	}
	if w.Contracts[k] != "suicider" {
		return
	}
	rc, snd := w.acct(tx.To), w.acct(tx.From)
	snd.Bal.Add(snd.Bal, rc.Bal)
	rc.Bal, rc.Nonce = u256(0), 0 // the account ceases to exist
	delete(w.Contracts, k)
	w.Dead[k] = true // ex-contract: still addressable (a plain account as far as the EVM is concerned)
	w.Feat["suicider_destroyed"]++
}

func isZero20(b []byte) bool {
	for _, x := range b {
		if x != 0 {
			return false
		}
	}
	return true
}

func toArr20(b []byte) (a [20]byte) { copy(a[:], b); return }
