//go:build verif

package harness

import (
	"bytes"
	"encoding/json"
	"fmt"
	"os"
	"sort"
	"testing"

	"github.com/rigochain/rigo-go/ledger"
	"github.com/rigochain/rigo-go/types/xerrors"
	"pgregory.net/rapid"
)

// ---- ledger item used by the model-based test ---------------------------------

type kvItem struct {
	K byte
	V uint32
}

func keyOf(k byte) ledger.LedgerKey {
	var lk ledger.LedgerKey
	lk[0] = k
	lk[31] = k ^ 0x5a
	return lk
}

func (i *kvItem) Key() ledger.LedgerKey { return keyOf(i.K) }
func (i *kvItem) Encode() ([]byte, xerrors.XError) {
	return []byte{i.K, byte(i.V >> 24), byte(i.V >> 16), byte(i.V >> 8), byte(i.V)}, nil
}
func (i *kvItem) Decode(b []byte) xerrors.XError {
	if len(b) != 5 {
		return xerrors.NewOrdinary("bad item")
	}
	i.K = b[0]
	i.V = uint32(b[1])<<24 | uint32(b[2])<<16 | uint32(b[3])<<8 | uint32(b[4])
	return nil
}

// ---- operations ---------------------------------------------------------------

type LOp struct {
	Op string `json:"op"`
	K  byte   `json:"k,omitempty"`
	V  uint32 `json:"v,omitempty"`
	At int64  `json:"at,omitempty"`
}

type ledgerModel struct {
	committed []map[byte]uint32 // index = version (0 = empty tree)
	cons      map[byte]*uint32  // nil pointer = tombstone
	mem       map[byte]*uint32
	consFresh map[byte]bool // key got its first overlay entry by the very last op (cancel-set shape)
	memFresh  map[byte]bool // the same for the mempool overlay
	// keys written or removed by the last commit
	lastChanged []byte
}

func (m *ledgerModel) latest() map[byte]uint32 { return m.committed[len(m.committed)-1] }

func (m *ledgerModel) consView(k byte) (uint32, bool) {
	if p, ok := m.cons[k]; ok {
		if p == nil {
			return 0, false
		}
		return *p, true
	}
	v, ok := m.latest()[k]
	return v, ok
}

func (m *ledgerModel) memView(k byte) (uint32, bool) {
	if p, ok := m.mem[k]; ok {
		if p == nil {
			return 0, false
		}
		return *p, true
	}
	v, ok := m.latest()[k]
	return v, ok
}

// nLedgers real instances are fed the same operations (their commits must agree: a node-local influence
// such as map iteration order shows as different root hashes with probability growing with the count).
const nLedgers = 3

type ledgerPair struct {
	dirs [nLedgers]string
	l    [nLedgers]*ledger.FinalityLedger[*kvItem]
}

func openLedgerPair(dirs [nLedgers]string) (*ledgerPair, error) {
	p := &ledgerPair{dirs: dirs}
	for i := 0; i < nLedgers; i++ {
		l, xerr := ledger.NewFinalityLedger[*kvItem]("kv", dirs[i], 16, func() *kvItem { return &kvItem{} })
		if xerr != nil {
			return nil, xerr
		}
		p.l[i] = l
	}
	return p, nil
}

func (p *ledgerPair) close() {
	for i := 0; i < nLedgers; i++ {
		if p.l[i] != nil {
			_ = p.l[i].Close()
		}
	}
}

type ledgerRun struct {
	ops   []LOp
	feats map[string]bool
}

// ledgerNext draws the next operation given the model state (constructive: preconditions of the
// real callers are respected by construction, nothing is filtered).
func ledgerNext(t *rapid.T, m *ledgerModel, nKeys int, lastOp *LOp) LOp {
	k := byte(unif(t, nKeys, "key"))
	v := uint32(1 + unif(t, 1000, "val"))
	if pct(t, 35, "oldValue") {
		// a value this key holds or held in some version: writes that change nothing, and items re-created as they were
		var olds []uint32
		if cv, ok := m.consView(k); ok {
			olds = append(olds, cv)
		}
		for vi := len(m.committed) - 1; vi >= 0 && len(olds) < 4; vi-- {
			if ov, ok := m.committed[vi][k]; ok {
				olds = append(olds, ov)
			}
		}
		if len(olds) > 0 {
			v = pick(t, olds, "oldVal")
		}
	}
	visibleCons := func() []byte {
		var ks []byte
		for i := 0; i < nKeys; i++ {
			if _, ok := m.consView(byte(i)); ok {
				ks = append(ks, byte(i))
			}
		}
		return ks
	}
	visibleMem := func() []byte {
		var ks []byte
		for i := 0; i < nKeys; i++ {
			if _, ok := m.memView(byte(i)); ok {
				ks = append(ks, byte(i))
			}
		}
		return ks
	}
	// what was just un-done is looked at, and what a commit changed is looked at through every view afterwards
	if lastOp != nil && (lastOp.Op == "canceldel" || lastOp.Op == "cancelset") && pct(t, 60, "lookAfterCancel") {
		return LOp{Op: "get", K: lastOp.K}
	}
	if lastOp != nil && lastOp.Op == "commit" && len(m.lastChanged) > 0 && pct(t, 55, "lookAfterCommit") {
		return LOp{Op: pick(t, []string{"get", "get", "getf", "read"}, "lookOp"), K: pick(t, m.lastChanged, "lookKey")}
	}
	// removals come in bursts now and then (several keys leaving the tree in one commit)
	if lastOp != nil && lastOp.Op == "delf" && pct(t, 45, "delBurst") {
		if ks := visibleCons(); len(ks) > 0 {
			return LOp{Op: "delf", K: pick(t, ks, "delBurstKey")}
		}
	}
	for {
		switch weighted(t, map[string]int{"setf": 16, "getf": 14, "delf": 10, "set": 8, "get": 8, "del": 5, "read": 6, "iterall": 3, "iterupd": 3,
			"commit": 8, "hist": 8, "reopen": 2, "cancelsetf": 3, "canceldelf": 2, "cancelset": 3, "canceldel": 3}, "op") {
		case "setf":
			return LOp{Op: "setf", K: k, V: v}
		case "getf":
			return LOp{Op: "getf", K: k}
		case "delf":
			if ks := visibleCons(); len(ks) > 0 {
				return LOp{Op: "delf", K: pick(t, ks, "delKey")}
			}
		case "set":
			return LOp{Op: "set", K: k, V: v}
		case "get":
			return LOp{Op: "get", K: k}
		case "del":
			if ks := visibleMem(); len(ks) > 0 {
				return LOp{Op: "del", K: pick(t, ks, "delMemKey")}
			}
		case "read":
			return LOp{Op: "read", K: k}
		case "iterall":
			return LOp{Op: "iterall"}
		case "iterupd":
			return LOp{Op: "iterupd"}
		case "commit":
			return LOp{Op: "commit"}
		case "hist":
			latest := int64(len(m.committed) - 1)
			at := int64(unif(t, int(latest)+3, "histAt")) // 0..latest+2
			if at == 0 {
				at = latest + 1
			}
			return LOp{Op: "hist", K: k, At: at}
		case "reopen":
			return LOp{Op: "reopen"}
		case "cancelsetf":
			// shape used by the real caller: directly after a set of a key that had no overlay entry before
			if lastOp != nil && lastOp.Op == "setf" && m.consFresh[lastOp.K] {
				return LOp{Op: "cancelsetf", K: lastOp.K}
			}
		case "canceldelf":
			// directly after a delete of a key without a pending set
			if lastOp != nil && lastOp.Op == "delf" && m.consFresh[lastOp.K] {
				return LOp{Op: "canceldelf", K: lastOp.K}
			}
		case "cancelset":
			// the shape of the one real caller (a withdrawal that fails after the reward was stored): directly after
			// a mempool-side set of a key without an overlay entry
			if lastOp != nil && lastOp.Op == "set" && m.memFresh[lastOp.K] {
				return LOp{Op: "cancelset", K: lastOp.K}
			}
		case "canceldel":
			// any key that is deleted in the mempool view - by a mempool-side delete or by the mirror of a consensus
			// delete: the mempool view falls back to what is committed
			var dead []byte
			for i := 0; i < nKeys; i++ {
				if pv, ok := m.mem[byte(i)]; ok && pv == nil {
					dead = append(dead, byte(i))
				}
			}
			if len(dead) > 0 {
				return LOp{Op: "canceldel", K: pick(t, dead, "cancelDelKey")}
			}
		}
	}
}

// applyLedgerOp executes op on both ledgers and the model and compares.
func applyLedgerOp(p **ledgerPair, m *ledgerModel, op LOp, feats map[string]bool, trace *[]string) error {
	note := func(f string, a ...interface{}) { *trace = append(*trace, fmt.Sprintf(f, a...)) }
	isNotFound := func(x xerrors.XError) bool { return x != nil }
	wasFresh := func(k byte) bool { _, had := m.cons[k]; return !had }
	fresh := map[byte]bool{}
	defer func() { m.consFresh = fresh }()
	mfresh := map[byte]bool{}
	defer func() { m.memFresh = mfresh }()
	for i := 0; i < nLedgers; i++ {
		l := (*p).l[i]
		switch op.Op {
		case "setf":
			if xerr := l.SetFinality(&kvItem{K: op.K, V: op.V}); xerr != nil {
				return fmt.Errorf("SetFinality: %v", xerr)
			}
		case "set":
			if xerr := l.Set(&kvItem{K: op.K, V: op.V}); xerr != nil {
				return fmt.Errorf("Set: %v", xerr)
			}
		case "getf":
			it, xerr := l.GetFinality(keyOf(op.K))
			want, ok := m.consView(op.K)
			if ok && (xerr != nil || it.V != want) {
				return fmt.Errorf("GetFinality(%d) = %v,%v; the consensus view holds %d", op.K, it, xerr, want)
			}
			if !ok && !isNotFound(xerr) {
				return fmt.Errorf("GetFinality(%d) = %v; the key is absent/deleted in the consensus view", op.K, it)
			}
		case "get":
			it, xerr := l.Get(keyOf(op.K))
			want, ok := m.memView(op.K)
			if ok && (xerr != nil || it.V != want) {
				return fmt.Errorf("Get(%d) = %v,%v; the mempool view holds %d", op.K, it, xerr, want)
			}
			if !ok && !isNotFound(xerr) {
				return fmt.Errorf("Get(%d) = %v; the key is absent/deleted in the mempool view", op.K, it)
			}
		case "delf":
			want, _ := m.consView(op.K)
			it, xerr := l.DelFinality(keyOf(op.K))
			if xerr != nil || it.V != want {
				return fmt.Errorf("DelFinality(%d) = %v,%v; the consensus view holds %d", op.K, it, xerr, want)
			}
		case "del":
			want, _ := m.memView(op.K)
			it, xerr := l.Del(keyOf(op.K))
			if xerr != nil || it.V != want {
				return fmt.Errorf("Del(%d) = %v,%v; the mempool view holds %d", op.K, it, xerr, want)
			}
		case "cancelset":
			_ = l.CancelSet(keyOf(op.K))
		case "canceldel":
			_ = l.CancelDel(keyOf(op.K))
		case "cancelsetf":
			_ = l.CancelSetFinality(keyOf(op.K))
		case "canceldelf":
			_ = l.CancelDelFinality(keyOf(op.K))
		case "read":
			it, xerr := l.Read(keyOf(op.K))
			want, ok := m.latest()[op.K]
			if ok && (xerr != nil || it.V != want) {
				return fmt.Errorf("Read(%d) = %v,%v; last commit holds %d", op.K, it, xerr, want)
			}
			if !ok && !isNotFound(xerr) {
				return fmt.Errorf("Read(%d) = %v; the key is not in the last commit", op.K, it)
			}
		case "iterall":
			got := map[byte]uint32{}
			if xerr := l.IterateReadAllFinalityItems(func(it *kvItem) xerrors.XError { got[it.K] = it.V; return nil }); xerr != nil {
				return fmt.Errorf("IterateReadAllFinalityItems: %v", xerr)
			}
			if !sameMap(got, m.latest()) {
				return fmt.Errorf("IterateReadAllFinalityItems = %v; last commit is %v", got, m.latest())
			}
		case "iterupd":
			got := map[byte]uint32{}
			_ = l.IterateFinalityUpdatedItems(func(it *kvItem) xerrors.XError { got[it.K] = it.V; return nil })
			want := map[byte]uint32{}
			for k, pv := range m.cons {
				if pv != nil {
					want[k] = *pv
				}
			}
			if !sameMap(got, want) {
				return fmt.Errorf("IterateFinalityUpdatedItems = %v; pending consensus writes are %v", got, want)
			}
		case "hist":
			latest := int64(len(m.committed) - 1)
			il, xerr := l.ImmutableLedgerAt(op.At, 0)
			if op.At > latest {
				if xerr == nil {
					return fmt.Errorf("ImmutableLedgerAt(%d) succeeds although the latest version is %d", op.At, latest)
				}
				continue
			}
			if xerr != nil {
				return fmt.Errorf("ImmutableLedgerAt(%d) fails (latest %d): %v", op.At, latest, xerr)
			}
			it, rerr := il.Read(keyOf(op.K))
			want, ok := m.committed[op.At][op.K]
			if ok && (rerr != nil || it.V != want) {
				return fmt.Errorf("version %d key %d reads %v,%v; committed there: %d", op.At, op.K, it, rerr, want)
			}
			if !ok && !isNotFound(rerr) {
				return fmt.Errorf("version %d key %d reads %v; nothing was committed there", op.At, op.K, it)
			}
			got := map[byte]uint32{}
			_ = il.IterateReadAllItems(func(it *kvItem) xerrors.XError { got[it.K] = it.V; return nil })
			if !sameMap(got, m.committed[op.At]) {
				return fmt.Errorf("version %d iterates %v; committed there: %v", op.At, got, m.committed[op.At])
			}
		}
	}
	// operations with a joint effect / result comparison between the two instances
	switch op.Op {
	case "commit":
		h0, v0, x0 := (*p).l[0].Commit()
		h1, v1, x1 := (*p).l[1].Commit()
		if x0 != nil || x1 != nil {
			return fmt.Errorf("Commit: %v %v", x0, x1)
		}
		for i := 2; i < nLedgers; i++ {
			hi, vi, xi := (*p).l[i].Commit()
			if xi != nil {
				return fmt.Errorf("Commit: %v", xi)
			}
			if vi != v0 || !bytes.Equal(hi, h0) {
				return fmt.Errorf("ledgers fed the same operations commit different versions/root hashes: %d/%x vs %d/%x", v0, h0, vi, hi)
			}
		}
		removed := 0
		for _, pv := range m.cons {
			if pv == nil {
				removed++
			}
		}
		if removed >= 2 && len(m.latest()) >= 5 {
			feats["commit_removing_2+_keys_of_5+"] = true
		}
		next := map[byte]uint32{}
		for k, v := range m.latest() {
			next[k] = v
		}
		for k, pv := range m.cons {
			if pv == nil {
				delete(next, k)
			} else {
				next[k] = *pv
			}
		}
		m.committed = append(m.committed, next)
		m.lastChanged = nil
		for k := 0; k < 256; k++ {
			if _, ok := m.cons[byte(k)]; ok {
				m.lastChanged = append(m.lastChanged, byte(k))
			}
		}
		m.cons, m.mem = map[byte]*uint32{}, map[byte]*uint32{}
		if v0 != int64(len(m.committed)-1) || v1 != v0 {
			return fmt.Errorf("Commit returned versions %d/%d, expected %d", v0, v1, len(m.committed)-1)
		}
		if !bytes.Equal(h0, h1) {
			return fmt.Errorf("two ledgers fed the same operations commit different root hashes %x vs %x", h0, h1)
		}
		note("commit -> v%d %v", v0, next)
	case "reopen":
		if len(m.cons) > 0 || len(m.mem) > 0 {
			feats["reopen_with_pending_overlay"] = true
		}
		np := *p
		if len(m.cons) == 0 && len(m.mem) == 0 {
			// nothing pending: only the instances 1.. are closed and opened again, instance 0 keeps running - what an
			// instance remembers of its own past must not influence what it commits from here on
			feats["partial_reopen"] = true
			for i := 1; i < nLedgers; i++ {
				_ = np.l[i].Close()
				l, xerr := ledger.NewFinalityLedger[*kvItem]("kv", np.dirs[i], 16, func() *kvItem { return &kvItem{} })
				if xerr != nil {
					return fmt.Errorf("reopen: %v", xerr)
				}
				np.l[i] = l
			}
		} else {
			(*p).close()
			var err error
			np, err = openLedgerPair((*p).dirs)
			if err != nil {
				return fmt.Errorf("reopen: %v", err)
			}
			*p = np
		}
		m.cons, m.mem = map[byte]*uint32{}, map[byte]*uint32{}
		for i := 0; i < nLedgers; i++ {
			if v := np.l[i].Version(); v != int64(len(m.committed)-1) {
				return fmt.Errorf("after reopen the ledger is at version %d, last commit was %d", v, len(m.committed)-1)
			}
		}
	case "setf":
		if pv, ok := m.cons[op.K]; ok && pv == nil {
			feats["set_after_delete_same_interval"] = true
		}
		if cv, ok := m.latest()[op.K]; ok && cv == op.V {
			feats["set_to_the_committed_value"] = true
		} else if !ok {
			for vi := len(m.committed) - 2; vi >= 0; vi-- {
				if ov, was := m.committed[vi][op.K]; was && ov == op.V {
					feats["recreated_with_a_value_held_before_a_committed_delete"] = true
					break
				}
			}
		}
		fresh[op.K] = wasFresh(op.K)
		v := op.V
		m.cons[op.K] = &v
	case "set":
		_, had := m.mem[op.K]
		mfresh[op.K] = !had
		v := op.V
		m.mem[op.K] = &v
	case "cancelset", "canceldel":
		if pv, ok := m.mem[op.K]; op.Op == "canceldel" && ok && pv == nil {
			if _, consDeleted := m.cons[op.K]; consDeleted && m.cons[op.K] == nil {
				feats["mempool_undelete_of_a_key_the_block_deleted"] = true
			}
		}
		delete(m.mem, op.K)
	case "delf":
		fresh[op.K] = wasFresh(op.K)
		m.cons[op.K] = nil
		m.mem[op.K] = nil // a consensus delete also removes the key from the mempool view
	case "del":
		m.mem[op.K] = nil
	case "cancelsetf", "canceldelf":
		delete(m.cons, op.K)
	case "getf":
		if pv, ok := m.cons[op.K]; ok && pv != nil {
			// was there a delete before this set in the interval? tracked by feature flag above
			if feats["set_after_delete_same_interval"] {
				feats["delete_set_get_same_interval"] = true
			}
		}
	case "hist":
		if op.At <= int64(len(m.committed)-1) && int64(len(m.committed)-1)-op.At >= 2 {
			feats["historical_read_after_2_commits"] = true
		}
	}
	return nil
}

func sameMap(a, b map[byte]uint32) bool {
	if len(a) != len(b) {
		return false
	}
	for k, v := range a {
		if w, ok := b[k]; !ok || w != v {
			return false
		}
	}
	return true
}

func opsShape(ops []LOp) string {
	s := ""
	for _, o := range ops {
		s += o.Op[:2] + string(rune('a'+o.K%26))
	}
	return s
}

var smallestOps = -1

func dumpOps(prop string, ops interface{}, n int, msg string) {
	out := os.Getenv("VERIF_OUT")
	if out == "" {
		return
	}
	if smallestOps >= 0 && n > smallestOps {
		return
	}
	smallestOps = n
	bz, _ := json.MarshalIndent(map[string]interface{}{"property": prop, "ops": ops, "failure": msg}, "", " ")
	_ = os.WriteFile(out+"/replay.json", bz, 0o644)
}

// C18: the versioned ledger behaves like a map with a consensus overlay, a mempool overlay and
// immutable history.
func TestC18(t *testing.T) {
	st := newStats("C18")
	defer st.write()
	run := func(next func(m *ledgerModel, last *LOp) *LOp) (ops []LOp, feats map[string]bool, err error) {
		var dirs [nLedgers]string
		for i := range dirs {
			dirs[i] = newDataDir()
			defer os.RemoveAll(dirs[i])
		}
		p, err := openLedgerPair(dirs)
		if err != nil {
			return nil, nil, err
		}
		defer func() { p.close() }()
		m := &ledgerModel{committed: []map[byte]uint32{{}}, cons: map[byte]*uint32{}, mem: map[byte]*uint32{}, consFresh: map[byte]bool{}, memFresh: map[byte]bool{}}
		feats = map[string]bool{}
		var trace []string
		var last *LOp
		for {
			op := next(m, last)
			if op == nil {
				return ops, feats, nil
			}
			ops = append(ops, *op)
			var aerr error
			if perr := guard("ledger", func() { aerr = applyLedgerOp(&p, m, *op, feats, &trace) }); perr != nil {
				return ops, feats, fmt.Errorf("step %d %+v: %v", len(ops), *op, perr)
			}
			if aerr != nil {
				return ops, feats, fmt.Errorf("step %d %+v: %v", len(ops), *op, aerr)
			}
			last = op
		}
	}
	finish := func(ops []LOp, feats map[string]bool) {
		nt := feats["delete_set_get_same_interval"] || feats["historical_read_after_2_commits"] || feats["reopen_with_pending_overlay"]
		for k := range feats {
			st.label("feat:"+k, 1)
		}
		st.label("ops", len(ops))
		st.caseDone(nt, opsShape(ops), func() interface{} {
			s := []string{}
			for i, o := range ops {
				if i >= 40 {
					s = append(s, "...")
					break
				}
				s = append(s, fmt.Sprintf("%s k=%d v=%d at=%d", o.Op, o.K, o.V, o.At))
			}
			return s
		})
	}
	if path := os.Getenv("VERIF_REPLAY"); path != "" {
		var f struct {
			Ops []LOp `json:"ops"`
		}
		bz, err := os.ReadFile(path)
		if err != nil || json.Unmarshal(bz, &f) != nil {
			t.Fatalf("cannot load replay %s", path)
		}
		i := 0
		ops, feats, err := run(func(m *ledgerModel, last *LOp) *LOp {
			if i >= len(f.Ops) {
				return nil
			}
			i++
			return &f.Ops[i-1]
		})
		finish(ops, feats)
		if err != nil {
			t.Fatalf("C18: %v", err)
		}
		return
	}
	rapid.Check(t, func(rt *rapid.T) {
		nKeys := 1 + unif(rt, 8, "nKeys")
		if pct(rt, 35, "manyKeys") {
			nKeys = 9 + unif(rt, 8, "nKeysMany")
		}
		n := 5 + unif(rt, 56, "nOps")
		// optional preamble: a populated tree (ordinary operations, recorded like the others)
		var forced []LOp
		if pct(rt, 45, "prefill") {
			for k := 0; k < nKeys; k++ {
				if pct(rt, 80, "prefillKey") {
					forced = append(forced, LOp{Op: "setf", K: byte(k), V: uint32(1 + unif(rt, 1000, "prefillVal"))})
				}
			}
			forced = append(forced, LOp{Op: "commit"})
		}
		cnt := 0
		ops, feats, err := run(func(m *ledgerModel, last *LOp) *LOp {
			if len(forced) > 0 {
				op := forced[0]
				forced = forced[1:]
				return &op
			}
			if cnt >= n {
				return nil
			}
			cnt++
			op := ledgerNext(rt, m, nKeys, last)
			return &op
		})
		finish(ops, feats)
		if err != nil {
			dumpOps("C18", ops, len(ops), err.Error())
			rt.Fatalf("C18: %v", err)
		}
	})
}

var _ = sort.Strings
