//go:build verif

package harness

import (
	"fmt"
	"strings"
	"testing"

	"github.com/holiman/uint256"
)

// chainSpec describes one property check of the chain engine (reference model as conformance checker).
type chainSpec struct {
	prop    string
	profile func() *Profile
	// compare runs after every committed block on the primary replica
	compare func(c *Case, a *AppState, b *Block, br *BlockResult)
	// nontrivial decides from the features the model saw
	nontrivial func(c *Case) (bool, string)
	// panicIsViolation: a panic of the application inside block processing counts against this property
	panicIsViolation bool
	// noInject: do not serve mempool checks while driving the primary
	noInject bool
	// pRestart: percent of blocks after which the replica is stopped and reopened (the property must hold across restarts)
	pRestart int
}

func runChain(t *testing.T, sp *chainSpec) {
	prof := sp.profile()
	prof.LiveInject = !sp.noInject
	runCheck(t, sp.prop, prof, func(src Source, st *Stats) *Outcome {
		var firstViol *Violation
		var prevApp *AppState
		paramsChangedSeen := 0
		gsrc, generating := src.(*GenSource)
		var injPanic *PanicError
		// A real node serves mempool checks all the time: CheckTx of the block's own txs right before their
		// delivery and of fresh valid txs at the ABCI-call boundaries. They must not influence what the model predicts.
		serve := func(c *Case, b *Block, pos int, own []byte) {
			if generating && !sp.noInject {
				if own != nil && pct(gsrc.t, 25, "checkOwnFirst") {
					b.Inject = append(b.Inject, Injected{Pos: pos, Kind: "check", Tx: own})
				}
				if len(gsrc.fresh) > 0 && pct(gsrc.t, 12, "checkFresh") {
					b.Inject = append(b.Inject, Injected{Pos: pos, Kind: "check", Tx: pick(gsrc.t, gsrc.fresh, "freshTx")})
				}
			}
			for i := range b.Inject {
				inj := &b.Inject[i]
				if inj.Pos != pos || inj.done || inj.Kind != "check" {
					continue
				}
				inj.done = true
				if r, perr := c.Sim.CheckTx(inj.Tx); perr != nil {
					// a crash of the mempool check is C09's finding; here the case just ends
					c.W.Feat["checktx_panicked"]++
					injPanic = perr
				} else if r.Code == 0 {
					c.W.Feat["checktx_ok_served"]++
				}
			}
		}
		c, err := RunPrimary(sp.prop, src, &PrimaryOpts{
			BlockHooks: func(c *Case, b *Block) *BlockHooks {
				return &BlockHooks{
					BeforeTx:    func(i int) { serve(c, b, i, b.Txs[i]) },
					AfterEnd:    func() { serve(c, b, len(b.Txs)+1, nil) },
					AfterCommit: func() { serve(c, b, len(b.Txs)+2, nil) },
				}
			},
			BeforeBlock: func(c *Case, b *Block) {
				serve(c, b, -1, nil) // also right after a restart, before the first BeginBlock
				if c.W.PeekDelegatee == nil {
					c.W.PeekDelegatee = func(addr []byte) bool { return c.Sim.App.VerifStake().Delegatee(addr) != nil }
				}
			},
			AfterCommit: func(c *Case, b *Block, br *BlockResult) error {
				a, perr := readAppState(c.Sim)
				if perr != nil {
					return perr
				}
				a.Prev = prevApp
				if prevApp != nil {
					prevApp.Prev = nil
				}
				prevApp = a
				if injPanic != nil {
					return injPanic
				}
				sp.compare(c, a, b, br)
				if vs := c.W.violationsOf(sp.prop); len(vs) > 0 {
					firstViol = &vs[0]
					msg := vs[0].Msg
					if len(vs) > 1 {
						msg += fmt.Sprintf(" (+%d more: %s)", len(vs)-1, trunc(vs[1].Msg, 200))
					}
					return violationf("%s", msg)
				}
				if gs, ok := src.(*GenSource); ok && sp.pRestart > 0 && c.EndedBy == "" {
					// more often right after a block that switched the governance parameters or moved stakes:
					// that is when memory rebuilt on restart can differ from memory carried over
					pr := sp.pRestart
					if c.W.Feat["params_changed"] > paramsChangedSeen {
						paramsChangedSeen = c.W.Feat["params_changed"]
						pr = 50
					} else if len(c.W.delegOps) > 0 {
						pr = 3 * sp.pRestart
					}
					// ... and while an open proposal has an option at or above the majority threshold (tallies kept in
					// memory and tallies decoded from the ledger have to agree when votes move afterwards)
					for _, op := range c.W.Open {
						if leadingOption(op) >= 0 && pr < 25 {
							pr = 25
						}
					}
					if pct(gs.t, pr, "restartAfter") {
						b.RestartAfter = true
					}
				}
				if b.RestartAfter && c.EndedBy == "" {
					if _, perr := c.Sim.Restart(); perr != nil {
						return perr // a node that does not come back is C07's finding
					}
					c.W.Feat["restart"]++
				}
				return nil
			},
		})
		out := &Outcome{Case: c}
		if err != nil {
			if pe, isPanic := err.(*PanicError); isPanic {
				if sp.panicIsViolation {
					out.Err = violationf("the application panicked while processing a block: %v", pe)
				}
				return out
			}
			out.Err = err
			return out
		}
		// tx-level violations recorded after the last compare
		if vs := c.W.violationsOf(sp.prop); len(vs) > 0 && firstViol == nil {
			out.Err = violationf("%s", vs[0].Msg)
			return out
		}
		nt, extra := sp.nontrivial(c)
		out.Nontrivial = nt
		out.Shape = c.shape() + "|" + extra
		return out
	})
}

func feat(c *Case, ks ...string) int {
	n := 0
	for _, k := range ks {
		n += c.W.Feat[k]
	}
	return n
}

func featShape(c *Case, ks ...string) string {
	var s []string
	for _, k := range ks {
		if c.W.Feat[k] > 0 {
			s = append(s, k)
		}
	}
	return strings.Join(s, ",")
}

// ---- C04 -------------------------------------------------------------------------

func TestC04(t *testing.T) {
	runChain(t, &chainSpec{prop: "C04", pRestart: 3,
		profile: func() *Profile {
			p := defaultProfile()
			p.Crowd = 6
			p.MinBlocks, p.MaxBlocks = 6, 20
			p.MaxTxs = 9
			p.W["replay"] = 14
			p.W["transfer"] = 24
			// the nonce of an account also moves inside the EVM (contract creation, calls): more of those here
			p.W["deployp"], p.W["callp"] = 7, 10
			p.PFault = 18
			p.PEvidence, p.PAbsent = 2, 2
			p.NonceChaos = true
			return p
		},
		compare: func(c *Case, a *AppState, b *Block, br *BlockResult) {
			c.W.CompareAccounts(a, "C04", false, true, nil)
		},
		nontrivial: func(c *Case) (bool, string) {
			replayedOK, outOfOrder, contract := false, false, feat(c, "ok_deploy", "ok_call", "ok_transfer_to_contract") > 0
			okTx := map[string]bool{}
			for bi, outs := range c.Outcomes {
				for i, o := range outs {
					raw := hx(c.Hist.Blocks[bi].Txs[i])
					if okTx[raw] {
						replayedOK = true // a successful tx was delivered again later
					}
					if o.OK {
						okTx[raw] = true
					}
					if !o.OK && o.Reason == "nonce" {
						outOfOrder = true
					}
				}
			}
			return replayedOK && outOfOrder && contract, fmt.Sprintf("%v%v%v", replayedOK, outOfOrder, contract)
		},
	})
}

// ---- C16 -------------------------------------------------------------------------

func TestC16(t *testing.T) {
	runChain(t, &chainSpec{prop: "C16", pRestart: 3,
		profile: func() *Profile {
			p := defaultProfile()
			p.Crowd = 6
			p.MinBlocks, p.MaxBlocks = 8, 26
			p.MaxTxs = 12
			p.PFault = 16
			p.VaryGas = true
			p.BlockGasBoundary = true
			p.GasFaults = true
			p.GovFocus = "gasPrice,minTrxGas"
			p.PNoProposer = 15
			p.W["propose"], p.W["vote"] = 14, 20
			return p
		},
		compare: func(c *Case, a *AppState, b *Block, br *BlockResult) {
			c.W.CompareAccounts(a, "C16", true, false, func(causes map[string]bool) bool {
				for k := range causes {
					switch k {
					case "fee", "transfer", "proposer", "contract":
					default:
						return false
					}
				}
				return true
			})
		},
		nontrivial: func(c *Case) (bool, string) {
			both := false
			for _, outs := range c.Outcomes {
				nat, con := 0, 0
				for _, o := range outs {
					if o.OK && o.Type == 6 {
						con++
					} else if o.OK {
						nat++
					}
				}
				if nat >= 1 && con >= 1 && nat+con >= 2 {
					both = true
				}
			}
			return both, fmt.Sprintf("%v/%d", both, feat(c, "params_changed"))
		},
	})
}

// ---- C02 -------------------------------------------------------------------------

func TestC02(t *testing.T) {
	runChain(t, &chainSpec{prop: "C02", pRestart: 4,
		profile: func() *Profile {
			p := defaultProfile()
			p.Crowd = 6
			p.MinBlocks, p.MaxBlocks = 10, 40
			p.MaxTxs = 8
			p.W["stake"], p.W["unstake"], p.W["withdraw"] = 18, 14, 10
			p.PEvidence = 8
			p.PNoProposer = 10
			return p
		},
		compare: func(c *Case, a *AppState, b *Block, br *BlockResult) { c.W.CompareSupply(a) },
		nontrivial: func(c *Case) (bool, string) {
			ks := []string{"refund", "stake_forfeited", "evidence_hits_delegatee", "delegatee_recreated_same_block", "concurrent_unbonding", "fees_without_proposer", "jailed"}
			return feat(c, ks...) > 0, featShape(c, ks...)
		},
	})
}

// ---- C11 -------------------------------------------------------------------------

func TestC11(t *testing.T) {
	runChain(t, &chainSpec{prop: "C11", pRestart: 4,
		profile: func() *Profile {
			p := defaultProfile()
			p.Crowd = 6
			p.MinBlocks, p.MaxBlocks = 8, 30
			p.MaxTxs = 10
			// F9 is about rewards, which this check does not compare; of block-1 staking only what F11 is about is kept out
			p.EarlyQuiet, p.F11Narrow = false, true
			p.W["stake"], p.W["unstake"] = 30, 22
			p.W["propose"], p.W["vote"], p.W["deploy"], p.W["call"] = 2, 2, 1, 1
			p.PEvidence = 8
			return p
		},
		compare: func(c *Case, a *AppState, b *Block, br *BlockResult) { c.W.CompareStakes(c.Sim, a, "C11") },
		nontrivial: func(c *Case) (bool, string) {
			ks := []string{"multi_op_same_delegatee_block", "forced_unbonding", "delegatee_recreated_same_block", "evidence_hits_delegators", "jailed"}
			return feat(c, ks[:3]...) > 0, featShape(c, ks...)
		},
	})
}

// ---- C12 -------------------------------------------------------------------------

func TestC12(t *testing.T) {
	runChain(t, &chainSpec{prop: "C12", pRestart: 4,
		profile: func() *Profile {
			p := defaultProfile()
			p.Crowd = 6
			p.MinBlocks, p.MaxBlocks = 10, 40
			p.MaxTxs = 8
			p.W["stake"], p.W["unstake"] = 24, 26
			// F9 is about rewards, which this check does not compare; of block-1 staking only what F11 is about is kept out
			p.EarlyQuiet, p.F11Narrow = false, true
			p.W["propose"], p.W["vote"] = 10, 12
			p.W["deploy"], p.W["call"] = 1, 1
			p.GovFocus = "lazyRewardBlocks"
			return p
		},
		compare: func(c *Case, a *AppState, b *Block, br *BlockResult) {
			c.W.CompareUnbonding(a, "C12")
			c.W.CompareAccounts(a, "C12", true, false, func(causes map[string]bool) bool {
				if len(causes) == 0 {
					return true // nobody else is credited
				}
				if !causes["refund"] {
					return false
				}
				return true
			})
		},
		nontrivial: func(c *Case) (bool, string) {
			ks := []string{"refund_multi_same_block", "refund_after_period_change", "forced_unbonding", "concurrent_unbonding", "jailed"}
			return feat(c, "refund_multi_same_block", "refund_after_period_change") > 0, featShape(c, ks...)
		},
	})
}

// ---- C13 -------------------------------------------------------------------------

func TestC13(t *testing.T) {
	runChain(t, &chainSpec{prop: "C13", pRestart: 4,
		profile: func() *Profile {
			p := defaultProfile()
			p.Crowd, p.CrowdUsers = envInt("VERIF_C13_CROWD", 6), 400
			p.MinBlocks, p.MaxBlocks = 15, 45
			p.MaxTxs = 7
			p.W["withdraw"], p.W["stake"], p.W["unstake"] = 26, 16, 10
			p.W["propose"], p.W["vote"] = 8, 10
			p.PAbsent = 25
			p.SmallWindows = false
			p.GovFocus = "rewardPerPower"
			return p
		},
		compare: func(c *Case, a *AppState, b *Block, br *BlockResult) {
			c.W.CompareRewards(a, "C13")
			if got, ok := issuedFromEvents(br); ok {
				if c.W.PreMiss["C13:blockguard"] == 0 && got.Cmp(c.W.issuedBlock) != 0 {
					c.W.fail("C13", "block reports %s issued, stakes of the signing validators earn %s", got.Dec(), c.W.issuedBlock.Dec())
				}
			} else if !c.W.issuedBlock.IsZero() {
				c.W.fail("C13", "no reward event although %s should have been issued", c.W.issuedBlock.Dec())
			}
			c.W.CompareAccounts(a, "C13", true, false, func(causes map[string]bool) bool { return causes["withdraw"] && !causes["refund"] && !causes["stake"] })
		},
		nontrivial: func(c *Case) (bool, string) {
			ks := []string{"reward_lag_visible", "issuance_and_2_withdrawals", "reward_round_multi_staker", "ok_withdraw", "params_changed"}
			return feat(c, "reward_lag_visible") > 0 && feat(c, "ok_withdraw") > 0, featShape(c, ks...)
		},
	})
}

// ---- C10 -------------------------------------------------------------------------

func TestC10(t *testing.T) {
	runChain(t, &chainSpec{prop: "C10", pRestart: 9,
		profile: func() *Profile {
			p := defaultProfile()
			p.MinBlocks, p.MaxBlocks = 10, 40
			p.MaxTxs = 8
			p.MaxVals = 6
			p.TightMaxVals = true
			// F9 is about rewards, which this check does not look at; of block-1 staking only what F11 is about is kept out
			p.EarlyQuiet, p.F11Narrow = false, true
			p.PowerTies = true
			p.Consensus = 50
			p.W["stake"], p.W["unstake"] = 30, 20
			p.W["propose"], p.W["vote"] = 10, 14
			p.W["deploy"], p.W["call"], p.W["setdoc"] = 1, 1, 1
			p.PEvidence = 8
			p.PAbsent = 8
			p.GovFocus = "maxValidatorCnt"
			return p
		},
		compare: func(c *Case, a *AppState, b *Block, br *BlockResult) {
			if c.EndedBy == "" {
				c.W.CompareValidators(br.Height, "C10")
			}
		},
		nontrivial: func(c *Case) (bool, string) {
			kinds := map[string]bool{}
			for bi, br := range c.Results {
				if bi < 2 {
					continue // block 2 re-emits the genesis set
				}
				for _, u := range br.ValUpdates {
					if u.Power == 0 {
						kinds["leave"] = true
					} else {
						kinds["join_or_power"] = true
					}
				}
			}
			return len(kinds) > 0, fmt.Sprintf("%v|%s", kinds, featShape(c, "jailed", "params_changed", "stake_forfeited"))
		},
	})
}

// ---- C14 -------------------------------------------------------------------------

func TestC14(t *testing.T) {
	runChain(t, &chainSpec{prop: "C14", pRestart: 4,
		profile: func() *Profile {
			p := defaultProfile()
			p.MinBlocks, p.MaxBlocks = 10, 36
			p.MaxTxs = 6
			p.PEvidence = 30
			p.PAbsent = 18
			p.W["stake"], p.W["unstake"] = 22, 8
			p.W["propose"], p.W["vote"] = 14, 16
			p.W["deploy"], p.W["call"] = 1, 1
			p.SmallPowers = true
			return p
		},
		compare: func(c *Case, a *AppState, b *Block, br *BlockResult) {
			// every block: the offenders changed as specified and (frame condition) nothing else changed
			c.W.CompareStakes(c.Sim, a, "C14")
			c.W.CompareGov(c.Sim, "C14")
			c.W.CompareRewards(a, "C14")
			c.W.CompareAccounts(a, "C14", true, true, nil)
		},
		nontrivial: func(c *Case) (bool, string) {
			ks := []string{"evidence_hits_delegators", "evidence_hits_voter", "jailed", "stake_forfeited", "evidence_hits_delegatee", "jail_ambiguous"}
			return feat(c, "evidence_hits_delegators", "evidence_hits_voter", "jailed") > 0, featShape(c, ks...)
		},
	})
}

// ---- C15 -------------------------------------------------------------------------

func TestC15(t *testing.T) {
	runChain(t, &chainSpec{prop: "C15", pRestart: 8, panicIsViolation: true,
		profile: func() *Profile {
			p := defaultProfile()
			p.MinBlocks, p.MaxBlocks = 12, 40
			p.MaxTxs = 8
			p.W["propose"], p.W["vote"] = 26, 34
			p.W["stake"], p.W["unstake"] = 10, 6
			p.W["deploy"], p.W["call"], p.W["setdoc"], p.W["withdraw"] = 1, 1, 1, 2
			p.PEvidence = 8
			p.PAbsent = 3
			p.HostileDocs = true
			return p
		},
		compare: func(c *Case, a *AppState, b *Block, br *BlockResult) { c.W.CompareGov(c.Sim, "C15") },
		nontrivial: func(c *Case) (bool, string) {
			ks := []string{"proposal_applied", "revote", "revote_took_majority_away", "tally_exactly_at_majority", "proposal_frozen", "proposal_removed", "params_changed", "multi_apply_same_block", "evidence_hits_voter"}
			return feat(c, "proposal_applied") > 0, featShape(c, ks...)
		},
	})
}

var _ = uint256.NewInt
