//go:build verif

package harness

import (
	"fmt"
	"math/big"
	"time"

	"github.com/ethereum/go-ethereum/common"
	ethcore "github.com/ethereum/go-ethereum/core"
	"github.com/ethereum/go-ethereum/core/rawdb"
	"github.com/ethereum/go-ethereum/core/state"
	ethtypes "github.com/ethereum/go-ethereum/core/types"
	ethvm "github.com/ethereum/go-ethereum/core/vm"
	ethcrypto "github.com/ethereum/go-ethereum/crypto"
	"github.com/holiman/uint256"
	ctypes "github.com/rigochain/rigo-go/ctrlers/types"
	"github.com/rigochain/rigo-go/ctrlers/vm/evm"
)

const evmBlockGasLimit = uint64(25_000_000)

// EVMRef is the reference world of C17: one vanilla go-ethereum StateDB on an in-memory database.
// Balances and nonces of all accounts are copied in from the model (= the native ledger by the
// reference rules) before a contract transaction and copied back afterwards; code and storage
// live here. Contract transactions run through vanilla core.ApplyMessage.
type EVMRef struct {
	db       *state.StateDB
	gp       *ethcore.GasPool
	universe map[string]bool // addresses whose balance/nonce are copied back after a tx
	atHeight map[int64]*state.StateDB
	burned   *uint256.Int
}

func NewEVMRef() *EVMRef {
	db, err := state.New(common.Hash{}, state.NewDatabase(rawdb.NewMemoryDatabase()), nil)
	if err != nil {
		panic(err)
	}
	return &EVMRef{db: db, universe: map[string]bool{}, atHeight: map[int64]*state.StateDB{}, burned: u256(0)}
}

func (r *EVMRef) BeginBlock() { r.gp = new(ethcore.GasPool).AddGas(evmBlockGasLimit) }

func (r *EVMRef) EndBlock(h int64) {
	r.atHeight[h] = r.db.Copy()
	delete(r.atHeight, h-6)
}

func (r *EVMRef) hasCode(addr []byte) bool {
	return r.db.GetCodeSize(common.BytesToAddress(addr)) > 0
}

func refBlockContext(proposer []byte, h int64) ethvm.BlockContext {
	var cb common.Address
	copy(cb[:], proposer)
	return ethvm.BlockContext{
		CanTransfer: func(db ethvm.StateDB, a common.Address, amt *big.Int) bool { return db.GetBalance(a).Cmp(amt) >= 0 },
		Transfer: func(db ethvm.StateDB, s, rcv common.Address, amt *big.Int) {
			db.SubBalance(s, amt)
			db.AddBalance(rcv, amt)
		},
		GetHash:     func(uint64) common.Hash { return common.Hash{} },
		Coinbase:    cb,
		BlockNumber: big.NewInt(h),
		Time:        big.NewInt(blockTime0 + 3*h),
		Difficulty:  big.NewInt(1),
		BaseFee:     big.NewInt(0),
		GasLimit:    evmBlockGasLimit,
	}
}

// syncIn copies the model's balances and nonces into the reference state.
func (r *EVMRef) syncIn(w *World, db *state.StateDB) {
	for k, a := range w.Accts {
		addr := common.BytesToAddress(unhx(k))
		if !db.Exist(addr) && a.Bal.IsZero() && a.Nonce == 0 {
			continue
		}
		if db.GetBalance(addr).Cmp(a.Bal.ToBig()) != 0 {
			db.SetBalance(addr, a.Bal.ToBig())
		}
		if db.GetNonce(addr) != a.Nonce {
			db.SetNonce(addr, a.Nonce)
		}
	}
}

// syncOut copies balances and nonces of every known address back to the model.
func (r *EVMRef) syncOut(w *World) {
	for k := range r.universe {
		w.acct(unhx(k))
	}
	for k, a := range w.Accts {
		addr := common.BytesToAddress(unhx(k))
		if !r.db.Exist(addr) {
			// the account does not exist in the EVM world any more (self-destructed, or emptied)
			if r.universe[k] && (!a.Bal.IsZero() || a.Nonce != 0) {
				// by the reference the native account is empty again (balance 0, nonce 0)
				a.Bal, a.Nonce = u256(0), 0
				w.cause(unhx(k), "contract")
			}
			if r.universe[k] && a.Code != nil {
				w.Dead[k] = true // ex-contract: stays addressable; only its native code marker is no longer compared
			}
			continue
		}
		nb, _ := uint256.FromBig(r.db.GetBalance(addr))
		if nb.Cmp(a.Bal) != 0 {
			a.Bal = nb
			w.cause(unhx(k), "contract")
		}
		a.Nonce = r.db.GetNonce(addr)
	}
}

type RefResult struct {
	Failed  bool
	Err     string
	Ret     []byte
	GasUsed uint64
	Logs    []*ethtypes.Log
	Created []byte
}

// Exec runs one contract-path transaction on the reference world, with this chain's rule that a
// failed transaction leaves no trace (no fee, no nonce bump).
func (r *EVMRef) Exec(w *World, tx *ctypes.Trx, hash []byte, txIdx int, h int64, proposer []byte) *RefResult {
	r.syncIn(w, r.db)
	from := common.BytesToAddress(tx.From)
	var to *common.Address
	if !isZero20(tx.To) {
		t := common.BytesToAddress(tx.To)
		to = &t
	}
	var data []byte
	if pl, ok := tx.Payload.(*ctypes.TrxPayloadContract); ok {
		data = pl.Data
	}
	price := w.Params.gasPrice()
	msg := ethtypes.NewMessage(from, to, tx.Nonce, tx.Amount.ToBig(), tx.Gas, price.ToBig(), big.NewInt(0), big.NewInt(0), data, nil, false)
	snap := r.db.Snapshot()
	r.db.Prepare(common.BytesToHash(hash), txIdx)
	tr := &touchTracer{seen: map[string]bool{}, failedTo: map[string]bool{}, inFailed: map[string]bool{}}
	vmenv := ethvm.NewEVM(refBlockContext(proposer, h), ethcore.NewEVMTxContext(msg), r.db, evm.RIGOMainnetEVMCtrlerChainConfig, ethvm.Config{NoBaseFee: true, Debug: true, Tracer: tr})
	// every address a frame, a create or a self-destruct touches belongs to the universe from now on
	defer func() {
		for k := range tr.seen {
			if !r.universe[k] {
				r.universe[k] = true
			}
		}
	}()
	for k := range r.universe {
		w.acct(unhx(k))
	}
	supplyBefore := r.totalOf(w)
	res, err := ethcore.ApplyMessage(vmenv, msg, r.gp)
	out := &RefResult{}
	if err != nil {
		r.db.RevertToSnapshot(snap)
		out.Failed, out.Err = true, err.Error()
		return out
	}
	out.GasUsed, out.Ret = res.UsedGas, res.ReturnData
	if res.Failed() {
		r.db.RevertToSnapshot(snap)
		out.Failed, out.Err = true, res.Err.Error()
		return out
	}
	// shapes that exercise the native<->EVM synchronisation around tolerated inner failures
	if tr.innerFailed > 0 {
		w.Feat["evm_ok_tx_with_failed_inner_frame"]++
	}
	if tr.valueAfterFail > 0 {
		w.Feat["evm_value_to_target_of_failed_frame_later"]++
	}
	if tr.retouched > 0 {
		w.Feat["evm_addr_touched_in_failed_frame_touched_again"]++
	}
	out.Logs = r.db.GetLogs(common.BytesToHash(hash), common.Hash{})
	if to == nil {
		c := ethcrypto.CreateAddress(from, tx.Nonce)
		out.Created = c[:]
		r.universe[ak(c[:])] = true
	}
	r.db.Finalise(true)
	// contracts created by inner CREATEs of known contracts join the universe
	for k := range r.universe {
		ca := common.BytesToAddress(unhx(k))
		if r.db.GetCodeSize(ca) == 0 {
			continue
		}
		for n := uint64(1); n <= 3; n++ {
			child := ethcrypto.CreateAddress(ca, n)
			if r.db.Exist(child) {
				r.universe[ak(child[:])] = true
			}
		}
	}
	for k := range tr.seen {
		r.universe[k] = true
	}
	r.syncOut(w)
	// value that left the world: gas fee (accounted by the caller) and self-destruct burns
	supplyAfter := r.totalOf(w)
	fee := new(uint256.Int).Mul(u256(res.UsedGas), price)
	if d := subSat(subSat(supplyBefore, fee), supplyAfter); !d.IsZero() {
		r.burned.Add(r.burned, d)
		w.Slashed.Add(w.Slashed, d) // accounted as destroyed value in the C02 sum
		w.Feat["evm_burn"]++
	}
	return out
}

func (r *EVMRef) totalOf(w *World) *uint256.Int {
	s := u256(0)
	for _, a := range w.Accts {
		s.Add(s, a.Bal)
	}
	return s
}

// Call runs a read-only call on a copy of the world as committed at height h.
func (r *EVMRef) Call(from, to, data []byte, h int64) (*RefResult, error) {
	base, ok := r.atHeight[h]
	if !ok {
		return nil, fmt.Errorf("no reference snapshot for height %d", h)
	}
	db := base.Copy()
	sender := common.BytesToAddress(from)
	var toAddr *common.Address
	if !isZero20(to) {
		t := common.BytesToAddress(to)
		toAddr = &t
	}
	msg := ethtypes.NewMessage(sender, toAddr, 0, big.NewInt(0), evmBlockGasLimit, big.NewInt(0), big.NewInt(0), big.NewInt(0), data, nil, true)
	vmenv := ethvm.NewEVM(refBlockContext(from, h), ethcore.NewEVMTxContext(msg), db, evm.RIGOMainnetEVMCtrlerChainConfig, ethvm.Config{NoBaseFee: true})
	res, err := ethcore.ApplyMessage(vmenv, msg, new(ethcore.GasPool).AddGas(evmBlockGasLimit))
	if err != nil {
		return nil, err
	}
	out := &RefResult{GasUsed: res.UsedGas, Ret: res.ReturnData}
	if res.Err != nil {
		out.Failed, out.Err = true, res.Err.Error()
	}
	return out, nil
}

// touchTracer records every address that receives a call frame, is created or is the beneficiary of a self-destruct.
type touchTracer struct {
	seen           map[string]bool
	stack          []frameRec
	failedTo       map[string]bool // targets of inner frames that failed
	inFailed       map[string]bool // addresses first touched inside a frame that failed
	innerFailed    int
	valueAfterFail int
	retouched      int
}

type frameRec struct {
	to      string
	touched []string // addresses first seen in this frame's subtree
}

func (t *touchTracer) CaptureTxStart(gasLimit uint64) {}
func (t *touchTracer) CaptureTxEnd(restGas uint64)    {}
func (t *touchTracer) CaptureStart(env *ethvm.EVM, from common.Address, to common.Address, create bool, input []byte, gas uint64, value *big.Int) {
	t.seen[ak(from[:])] = true
	t.seen[ak(to[:])] = true
}
func (t *touchTracer) CaptureEnd(output []byte, gasUsed uint64, d time.Duration, err error) {}
func (t *touchTracer) CaptureEnter(typ ethvm.OpCode, from common.Address, to common.Address, input []byte, gas uint64, value *big.Int) {
	k := ak(to[:])
	if t.failedTo[k] && value != nil && value.Sign() > 0 {
		t.valueAfterFail++
	}
	if t.inFailed[k] {
		t.retouched++
		delete(t.inFailed, k)
	}
	fr := frameRec{to: k}
	if !t.seen[k] {
		fr.touched = append(fr.touched, k)
	}
	t.seen[k] = true
	t.stack = append(t.stack, fr)
}
func (t *touchTracer) CaptureExit(output []byte, gasUsed uint64, err error) {
	if len(t.stack) == 0 {
		return
	}
	fr := t.stack[len(t.stack)-1]
	t.stack = t.stack[:len(t.stack)-1]
	if err != nil {
		t.innerFailed++
		t.failedTo[fr.to] = true
		for _, a := range fr.touched {
			t.inFailed[a] = true
		}
	} else if n := len(t.stack); n > 0 {
		t.stack[n-1].touched = append(t.stack[n-1].touched, fr.touched...)
	}
}
func (t *touchTracer) CaptureState(pc uint64, op ethvm.OpCode, gas, cost uint64, scope *ethvm.ScopeContext, rData []byte, depth int, err error) {
}
func (t *touchTracer) CaptureFault(pc uint64, op ethvm.OpCode, gas, cost uint64, scope *ethvm.ScopeContext, depth int, err error) {
}
