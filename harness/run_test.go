//go:build verif

package harness

import (
	"bytes"
	"fmt"
	"os"
	"sort"
	"strconv"
	"testing"

	"pgregory.net/rapid"
)

// Outcome of one evaluated case.
type Outcome struct {
	Case       *Case
	Nontrivial bool
	Shape      string
	Err        error // a *ViolationError means the property was violated
}

func tier() string { return envOr("VERIF_TIER", "quick") }

func envInt(k string, d int) int {
	if v := os.Getenv(k); v != "" {
		if n, err := strconv.Atoi(v); err == nil {
			return n
		}
	}
	return d
}

// runCheck is the common scaffold: replay mode (no rapid) or rapid-driven search.
func runCheck(t *testing.T, prop string, profile *Profile, body func(src Source, st *Stats) *Outcome) {
	st := newStats(prop)
	defer st.write()
	if path := os.Getenv("VERIF_REPLAY"); path != "" {
		h, err := LoadHistory(path)
		if err != nil {
			t.Fatalf("cannot load replay %s: %v", path, err)
		}
		out := body(&ReplaySource{H: h}, st)
		finishCase(st, out)
		if out.Err != nil {
			t.Fatalf("replay of %s: %v", path, out.Err)
		}
		return
	}
	rapid.Check(t, func(rt *rapid.T) {
		src := NewGenSource(rt, profile)
		out := body(src, st)
		finishCase(st, out)
		if out.Err != nil {
			if out.Case != nil {
				dumpFailure(out.Case.Hist, out.Err.Error())
			}
			rt.Fatalf("%s: %v", prop, out.Err)
		}
	})
}

func finishCase(st *Stats, out *Outcome) {
	var sample func() interface{}
	if out.Case != nil {
		st.absorbCase(out.Case)
		c := out.Case
		sample = func() interface{} { return c.sample(6) }
		if c.Sim != nil {
			c.Sim.Close(true)
		}
		if c.Panic != nil {
			st.mu.Lock()
			lst, _ := st.Extra["panics"].([]string)
			if len(lst) < 5 {
				st.Extra["panics"] = append(lst, c.Panic.Error())
			}
			st.mu.Unlock()
		}
	}
	st.caseDone(out.Nontrivial, out.Shape, sample)
}

// ---- transcripts -------------------------------------------------------------

func sortedUps(u []ValUp) []ValUp {
	c := append([]ValUp(nil), u...)
	sort.Slice(c, func(i, j int) bool { return bytes.Compare(c[i].Pub, c[j].Pub) < 0 })
	return c
}

// diffBlock compares what the properties call the outputs of a block.
func diffBlock(a, b *BlockResult) string {
	if len(a.Txs) != len(b.Txs) {
		return fmt.Sprintf("height %d: %d vs %d tx results", a.Height, len(a.Txs), len(b.Txs))
	}
	for i := range a.Txs {
		x, y := a.Txs[i], b.Txs[i]
		if x.Code != y.Code || !bytes.Equal(x.Data, y.Data) || x.GasWanted != y.GasWanted || x.GasUsed != y.GasUsed {
			return fmt.Sprintf("height %d tx %d: (code=%d data=%x gasWanted=%d gasUsed=%d log=%q) vs (code=%d data=%x gasWanted=%d gasUsed=%d log=%q)",
				a.Height, i, x.Code, x.Data, x.GasWanted, x.GasUsed, x.Log, y.Code, y.Data, y.GasWanted, y.GasUsed, y.Log)
		}
	}
	ua, ub := sortedUps(a.ValUpdates), sortedUps(b.ValUpdates)
	if len(ua) != len(ub) {
		return fmt.Sprintf("height %d: validator updates %v vs %v", a.Height, ua, ub)
	}
	for i := range ua {
		if !bytes.Equal(ua[i].Pub, ub[i].Pub) || ua[i].Power != ub[i].Power {
			return fmt.Sprintf("height %d: validator updates %v vs %v", a.Height, ua, ub)
		}
	}
	if !bytes.Equal(a.AppHash, b.AppHash) {
		return fmt.Sprintf("height %d: app hash %x vs %x", a.Height, a.AppHash, b.AppHash)
	}
	return ""
}

// runReplica executes a recorded history on a fresh replica.
func runReplica(h *History, hooks func(s *Sim, bi int, b *Block) *BlockHooks, afterBlock func(s *Sim, bi int, b *Block, br *BlockResult) error) (*Sim, []*BlockResult, error) {
	s := NewSim(h.Genesis)
	var out []*BlockResult
	for bi, b := range h.Blocks {
		var hk *BlockHooks
		if hooks != nil {
			hk = hooks(s, bi, b)
		}
		br, perr := s.RunBlock(b, hk)
		if perr != nil {
			return s, out, perr
		}
		out = append(out, br)
		if afterBlock != nil {
			if err := afterBlock(s, bi, b, br); err != nil {
				return s, out, err
			}
		}
	}
	return s, out, nil
}

// runReplicaPre is runReplica with an extra hook before BeginBlock of every block.
func runReplicaPre(h *History, pre func(s *Sim, bi int, b *Block), hooks func(s *Sim, bi int, b *Block) *BlockHooks, afterBlock func(s *Sim, bi int, b *Block, br *BlockResult) error) (*Sim, []*BlockResult, error) {
	s := NewSim(h.Genesis)
	var out []*BlockResult
	for bi, b := range h.Blocks {
		if pre != nil {
			pre(s, bi, b)
		}
		var hk *BlockHooks
		if hooks != nil {
			hk = hooks(s, bi, b)
		}
		br, perr := s.RunBlock(b, hk)
		if perr != nil {
			return s, out, perr
		}
		out = append(out, br)
		if afterBlock != nil {
			if err := afterBlock(s, bi, b, br); err != nil {
				return s, out, err
			}
		}
	}
	return s, out, nil
}
