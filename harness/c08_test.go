//go:build verif

package harness

import (
	"bytes"
	"encoding/json"
	"fmt"
	"os"
	"strings"
	"testing"

	"github.com/rigochain/rigo-go/libs/verifhook"
)

// commitStores names the durable writes of one Commit in their fixed order.
// "ledger" events arrive 7 times (gov_params, proposal, frozen_proposal, accounts, delegatees, frozen, rewards).
var ledgerOrder = []string{"gov_params", "proposal", "frozen_proposal", "accounts", "delegatees", "frozen", "rewards"}

type crashPoint struct {
	Block    int    // index of the interrupted block
	Label    string // e.g. "pre_begin", "post_begin", "post_tx2", "post_end", "commit:accounts", "post_commit"
	InCommit bool
	Last     bool // the last durable write of the commit (meta height)
	Dir      string
}

// knownCrashLabels: crash points recorded as known finding F8 (see known_findings.json).
func knownCrashLabels() map[string]bool {
	m := map[string]bool{}
	if os.Getenv("VERIF_C08_NO_KNOWN") != "" {
		return m
	}
	bz, err := os.ReadFile(envOr("VERIF_KNOWN_FILE", "/verif/known_findings.json"))
	if err != nil {
		return m
	}
	var kf struct {
		Findings []struct {
			Property string   `json:"property"`
			Status   string   `json:"status"`
			Labels   []string `json:"crash_labels"`
		} `json:"findings"`
	}
	if json.Unmarshal(bz, &kf) != nil {
		return m
	}
	for _, f := range kf.Findings {
		if f.Property == "C08" && f.Status == "known" {
			for _, l := range f.Labels {
				m[l] = true
			}
		}
	}
	return m
}

// C08 Crash recovery (fault enumeration): for every enumerated crash point the data directory is
// snapshotted exactly as a killed process would leave it; a new node opened on the snapshot must
// report a reconcilable height/hash, replay the interrupted block and then follow the hashes of the
// replica that never crashed.
func TestC08(t *testing.T) {
	p := defaultProfile()
	p.MinBlocks, p.MaxBlocks = 5, 16
	p.MaxTxs = 4
	known := knownCrashLabels()
	allBlocks := tier() == "thorough"
	runCheck(t, "C08", p, func(src Source, st *Stats) *Outcome {
		var points []*crashPoint
		snapRoot := newDataDir()
		defer os.RemoveAll(snapRoot)
		var cur *Case
		sampled := map[int]bool{}
		snap := func(bi int, label string, inCommit, last bool) {
			if cur == nil || cur.Sim == nil {
				return
			}
			if !allBlocks && !sampled[bi] {
				return
			}
			dir := fmt.Sprintf("%s/%03d-%s", snapRoot, len(points), strings.ReplaceAll(label, ":", "_"))
			if err := copyDir(cur.Sim.Dir, dir); err != nil {
				panic(err)
			}
			points = append(points, &crashPoint{Block: bi, Label: label, InCommit: inCommit, Last: last, Dir: dir})
		}
		blockIdx := -1
		ledgerN := 0
		var restartFail error // the node did not come back from an orderly stop
		verifhook.OnDurable = func(label string) {
			if cur == nil || !cur.inCommit {
				// a durable write outside Commit: snapshot it too, under its own name
				snap(blockIdx, "outside_commit:"+label, false, false)
				return
			}
			name := label
			if label == "ledger" {
				if ledgerN < len(ledgerOrder) {
					name = ledgerOrder[ledgerN]
				} else {
					name = fmt.Sprintf("ledger%d", ledgerN)
				}
				ledgerN++
			}
			snap(blockIdx, "commit:"+name, true, label == "meta:bh")
		}
		defer func() { verifhook.OnDurable = nil }()

		opts := &PrimaryOpts{
			BeforeBlock: func(c *Case, b *Block) {
				cur = c
				blockIdx++
				ledgerN = 0
				// the node that dies may have been stopped in an orderly way and started again just before this block
				if nb := len(c.Hist.Blocks); nb >= 2 {
					prev := c.Hist.Blocks[nb-2]
					// (off by default: the stores of a node that has just been reopened are being compacted in the background,
					// and a copy of its directory taken at that moment races with the compaction - see DESIGN section 11)
					if gs, ok := src.(*GenSource); ok && os.Getenv("VERIF_C08_ORDERLY_RESTARTS") != "" && pct(gs.t, 30, "orderlyRestartBefore") {
						prev.RestartAfter = true
					}
					if prev.RestartAfter && c.Sim != nil && os.Getenv("VERIF_C08_ORDERLY_RESTARTS") != "" {
						if _, perr := c.Sim.Restart(); perr != nil && restartFail == nil {
							restartFail = fmt.Errorf("before block %d: %v", blockIdx+1, perr)
						}
						st.label("orderly_restarts_of_the_node_that_dies", 1)
					}
				}
				if gs, ok := src.(*GenSource); ok && !allBlocks {
					// quick tier: all points of ~4 sampled blocks
					if pct(gs.t, 35, "sampleBlock") {
						sampled[blockIdx] = true
					}
					if (blockIdx+1)%10 == 0 {
						sampled[blockIdx] = true // every 10th commit writes one more durable record (the reward hash)
					}
				} else {
					sampled[blockIdx] = true
				}
				snap(blockIdx, "pre_begin", false, false)
			},
			BlockHooks: func(c *Case, b *Block) *BlockHooks {
				bi := blockIdx
				return &BlockHooks{
					AfterBegin:  func() { snap(bi, "post_begin", false, false) },
					AfterTx:     func(i int, r TxResult) { snap(bi, fmt.Sprintf("post_tx%d", i), false, false) },
					AfterEnd:    func() { snap(bi, "post_end", false, false); c.inCommit = true },
					AfterCommit: func() { c.inCommit = false; snap(bi, "post_commit", false, false) },
				}
			},
		}
		if os.Getenv("VERIF_C08_DEBUG") != "" {
			c08Digests = map[int64][]string{}
			opts.AfterCommit = func(c *Case, b *Block, br *BlockResult) error {
				d, _ := semanticDigest(c.Sim)
				c08Digests[br.Height] = d
				return nil
			}
		}
		c, err := RunPrimary("C08", src, opts)
		verifhook.OnDurable = nil
		out := &Outcome{Case: c}
		if restartFail != nil {
			// an orderly stop is the mildest way for a process to end: a node that does not come back from it is bricked
			out.Err = violationf("the node did not come back from an orderly stop and restart %v", restartFail)
			return out
		}
		if err != nil {
			if _, isPanic := err.(*PanicError); isPanic {
				return out
			}
			out.Err = err
			return out
		}
		// ---- examine every snapshot ----
		labels := map[string]int{}
		knownHit := map[string]int{}
		nontrivial := 0
		for _, cp := range points {
			labels[cp.Label]++
			mode, verr := examineCrashPoint(c, cp)
			_ = os.RemoveAll(cp.Dir)
			if verr == "" {
				if cp.InCommit && !cp.Last {
					nontrivial++
				}
				continue
			}
			if os.Getenv("VERIF_C08_SURVEY") != "" {
				knownHit["survey_fail:"+cp.Label+": "+mode]++
				continue
			}
			if known[cp.Label] && mode == "replay_of_interrupted_block_panics" {
				knownHit[cp.Label]++
				if cp.InCommit {
					nontrivial++
				}
				continue
			}
			out.Err = violationf("crash at block %d point %s: %s", cp.Block+1, cp.Label, verr)
			// keep the crash point in the replay file
			c.Hist.Extra = map[string]json.RawMessage{"crash_point": json.RawMessage(fmt.Sprintf(`{"block":%d,"label":%q}`, cp.Block, cp.Label))}
			break
		}
		st.mu.Lock()
		cl, _ := st.Extra["crash_points"].(map[string]int)
		if cl == nil {
			cl = map[string]int{}
		}
		for k, v := range labels {
			cl[k] += v
		}
		st.Extra["crash_points"] = cl
		kh, _ := st.Extra["known_finding_hits"].(map[string]int)
		if kh == nil {
			kh = map[string]int{}
		}
		for k, v := range knownHit {
			kh[k] += v
		}
		st.Extra["known_finding_hits"] = kh
		st.mu.Unlock()
		st.label("crash_points_examined", len(points))
		out.Nontrivial = nontrivial > 0
		out.Shape = c.shape() + fmt.Sprintf("|cp%d", len(points))
		return out
	})
}

var c08Digests map[int64][]string

// examineCrashPoint opens a new node on the snapshot and checks the recovery contract.
// It returns ("","") when the contract holds, else a failure mode and a description.
func examineCrashPoint(c *Case, cp *crashPoint) (string, string) {
	s, info, perr := OpenSim(cp.Dir)
	defer s.Close(false)
	if perr != nil {
		return "node_does_not_start", fmt.Sprintf("node does not start: %v", perr)
	}
	s.ChainID = c.Hist.Genesis.ChainID
	if c08Digests != nil && info.LastBlockHeight >= 1 {
		if d, perr := semanticDigest(s); perr == nil {
			if df := diffLines(c08Digests[info.LastBlockHeight], d); df != "" {
				fmt.Printf("C08DEBUG crash %s block %d: state after reopen at height %d differs from the committed state (A=reference):%s\n", cp.Label, cp.Block+1, info.LastBlockHeight, df)
			}
		}
	}
	bi := cp.Block
	hPrev := int64(bi) // height before the interrupted block
	var hashPrev []byte
	if bi > 0 {
		hashPrev = c.Results[bi-1].AppHash
	}
	hashCur := c.Results[bi].AppHash
	next := bi
	switch {
	case info.LastBlockHeight == hPrev && (bi == 0 || bytes.Equal(info.LastBlockAppHash, hashPrev)):
		if bi == 0 {
			// nothing committed yet: the engine runs InitChain again
			if perr := guard("InitChain", func() { s.App.InitChain(c.Hist.Genesis.initChainRequest()) }); perr != nil {
				return "initchain_panics", fmt.Sprintf("InitChain on restart panicked: %v", perr)
			}
		}
	case info.LastBlockHeight == hPrev+1 && bytes.Equal(info.LastBlockAppHash, hashCur):
		next = bi + 1
	default:
		return "irreconcilable_info", fmt.Sprintf("Info reports height %d hash %x; reconcilable are (%d,%x) or (%d,%x)", info.LastBlockHeight, info.LastBlockAppHash, hPrev, hashPrev, hPrev+1, hashCur)
	}
	// replay the interrupted block (if needed) and up to 2 following blocks
	for k := next; k < len(c.Hist.Blocks) && k <= bi+2; k++ {
		br, perr := s.RunBlock(c.Hist.Blocks[k], nil)
		if perr != nil {
			mode := "later_block_panics"
			if k == bi && next == bi {
				mode = "replay_of_interrupted_block_panics"
			}
			return mode, fmt.Sprintf("after restart at height %d, executing block %d: %v", info.LastBlockHeight, k+1, perr)
		}
		if d := diffBlock(c.Results[k], br); d != "" {
			return "fork", fmt.Sprintf("after restart at height %d the node forks: %s", info.LastBlockHeight, d)
		}
	}
	return "", ""
}
