// Package harness holds the property-based checks for rigo-go.
package harness
