//go:build verif

package harness

import (
	"encoding/json"
	"math"
	"strconv"

	"github.com/holiman/uint256"
	ctypes "github.com/rigochain/rigo-go/ctrlers/types"
	tmjson "github.com/tendermint/tendermint/libs/json"
)

// Params mirrors the JSON form of ctypes.GovParams (which has only private fields).
// uint256 values are decimal strings; "" means "unset" in an option document.
// 64-bit integers are strings in tendermint's JSON dialect, which is what the
// application uses on both sides (genesis document and gov_params query).
type Params struct {
	Version                 int64  `json:"version,string"`
	MaxValidatorCnt         int64  `json:"maxValidatorCnt,string"`
	MinValidatorStake       string `json:"minValidatorStake"`
	MinDelegatorStake       string `json:"minDelegatorStake"`
	RewardPerPower          string `json:"rewardPerPower"`
	LazyRewardBlocks        int64  `json:"lazyRewardBlocks,string"`
	LazyApplyingBlocks      int64  `json:"lazyApplyingBlocks,string"`
	GasPrice                string `json:"gasPrice"`
	MinTrxGas               uint64 `json:"minTrxGas,string"`
	MaxTrxGas               uint64 `json:"maxTrxGas,string"`
	MaxBlockGas             uint64 `json:"maxBlockGas,string"`
	MinVotingPeriodBlocks   int64  `json:"minVotingPeriodBlocks,string"`
	MaxVotingPeriodBlocks   int64  `json:"maxVotingPeriodBlocks,string"`
	MinSelfStakeRatio       int64  `json:"minSelfStakeRatio,string"`
	MaxUpdatableStakeRatio  int64  `json:"maxUpdatableStakeRatio,string"`
	MaxIndividualStakeRatio int64  `json:"maxIndividualStakeRatio,string"`
	SlashRatio              int64  `json:"slashRatio,string"`
	SignedBlocksWindow      int64  `json:"signedBlocksWindow,string"`
	MinSignedBlocks         int64  `json:"minSignedBlocks,string"`
}

func (p *Params) JSON() []byte {
	bz, err := json.Marshal(p)
	if err != nil {
		panic(err)
	}
	return bz
}

func parseParams(bz []byte) (*Params, error) {
	p := &Params{}
	if err := json.Unmarshal(bz, p); err != nil {
		return nil, err
	}
	return p, nil
}

// toGov converts through the application's own JSON decoder.
func (p *Params) toGov() *ctypes.GovParams {
	g := &ctypes.GovParams{}
	if err := tmjson.Unmarshal(p.JSON(), g); err != nil {
		panic(err)
	}
	return g
}

func paramsFromGov(g *ctypes.GovParams) *Params {
	bz, err := tmjson.Marshal(g)
	if err != nil {
		panic(err)
	}
	p, err := parseParams(bz)
	if err != nil {
		panic(err)
	}
	return p
}

func (p *Params) clone() *Params { q := *p; return &q }

func (p *Params) gasPrice() *uint256.Int       { return decOrZero(p.GasPrice) }
func (p *Params) rewardPerPower() *uint256.Int { return decOrZero(p.RewardPerPower) }
func (p *Params) minValidatorPower() int64     { return amountToPower(decOrZero(p.MinValidatorStake)) }
func (p *Params) minDelegatorPower() int64     { return amountToPower(decOrZero(p.MinDelegatorStake)) }
func (p *Params) minTrxFee() *uint256.Int {
	return new(uint256.Int).Mul(uint256.NewInt(p.MinTrxGas), p.gasPrice())
}

func decOrZero(s string) *uint256.Int {
	if s == "" {
		return uint256.NewInt(0)
	}
	return u256dec(s)
}

func amountToPower(a *uint256.Int) int64 {
	q := new(uint256.Int).Div(a, oneRigo)
	return int64(q.Uint64())
}

func powerToAmount(p int64) *uint256.Int {
	return new(uint256.Int).Mul(uint256.NewInt(uint64(p)), oneRigo)
}

// mergeParams is the reference merge rule: every field the option leaves unset
// (zero / empty) keeps the previous value.
func mergeParams(old, opt *Params) *Params {
	n := opt.clone()
	zs := func(s string) bool { return s == "" || decOrZero(s).IsZero() }
	if n.Version == 0 {
		n.Version = old.Version
	}
	if n.MaxValidatorCnt == 0 {
		n.MaxValidatorCnt = old.MaxValidatorCnt
	}
	if zs(n.MinValidatorStake) {
		n.MinValidatorStake = old.MinValidatorStake
	}
	if zs(n.MinDelegatorStake) {
		n.MinDelegatorStake = old.MinDelegatorStake
	}
	if zs(n.RewardPerPower) {
		n.RewardPerPower = old.RewardPerPower
	}
	if n.LazyRewardBlocks == 0 {
		n.LazyRewardBlocks = old.LazyRewardBlocks
	}
	if n.LazyApplyingBlocks == 0 {
		n.LazyApplyingBlocks = old.LazyApplyingBlocks
	}
	if zs(n.GasPrice) {
		n.GasPrice = old.GasPrice
	}
	if n.MinTrxGas == 0 {
		n.MinTrxGas = old.MinTrxGas
	}
	if n.MaxTrxGas == 0 {
		n.MaxTrxGas = old.MaxTrxGas
	}
	if n.MaxBlockGas == 0 {
		n.MaxBlockGas = old.MaxBlockGas
	}
	if n.MinVotingPeriodBlocks == 0 {
		n.MinVotingPeriodBlocks = old.MinVotingPeriodBlocks
	}
	if n.MaxVotingPeriodBlocks == 0 {
		n.MaxVotingPeriodBlocks = old.MaxVotingPeriodBlocks
	}
	if n.MinSelfStakeRatio == 0 {
		n.MinSelfStakeRatio = old.MinSelfStakeRatio
	}
	if n.MaxUpdatableStakeRatio == 0 {
		n.MaxUpdatableStakeRatio = old.MaxUpdatableStakeRatio
	}
	if n.MaxIndividualStakeRatio == 0 {
		n.MaxIndividualStakeRatio = old.MaxIndividualStakeRatio
	}
	if n.SlashRatio == 0 {
		n.SlashRatio = old.SlashRatio
	}
	if n.SignedBlocksWindow == 0 {
		n.SignedBlocksWindow = old.SignedBlocksWindow
	}
	if n.MinSignedBlocks == 0 {
		n.MinSignedBlocks = old.MinSignedBlocks
	}
	return n
}

// normalized returns a comparable form (decimal strings canonicalised, "" -> "0").
func (p *Params) normalized() Params {
	q := *p
	q.MinValidatorStake = decOrZero(p.MinValidatorStake).Dec()
	q.MinDelegatorStake = decOrZero(p.MinDelegatorStake).Dec()
	q.RewardPerPower = decOrZero(p.RewardPerPower).Dec()
	q.GasPrice = decOrZero(p.GasPrice).Dec()
	return q
}

// baseParams: small periods so that whole life cycles fit into tens of blocks.
func baseParams() *Params {
	return &Params{
		Version:                 1,
		MaxValidatorCnt:         10,
		MinValidatorStake:       rigo(1).Dec(),
		MinDelegatorStake:       "0",
		RewardPerPower:          "2000000000",
		LazyRewardBlocks:        3,
		LazyApplyingBlocks:      1,
		GasPrice:                "10",
		MinTrxGas:               10,
		MaxTrxGas:               math.MaxUint64,
		MaxBlockGas:             math.MaxUint64,
		MinVotingPeriodBlocks:   1,
		MaxVotingPeriodBlocks:   6,
		MinSelfStakeRatio:       50,
		MaxUpdatableStakeRatio:  100,
		MaxIndividualStakeRatio: 10000000,
		SlashRatio:              50,
		SignedBlocksWindow:      10000,
		MinSignedBlocks:         5,
	}
}

func itoa(v int64) string { return strconv.FormatInt(v, 10) }
