//go:build verif

package harness

import (
	"bytes"
	"encoding/json"
	"fmt"
	"os"
	"path/filepath"
	"sort"
	"testing"
)

// transcriptDigest condenses what the property calls the outputs of a history.
func transcriptDigest(results []*BlockResult) string {
	s := ""
	for _, br := range results {
		s += fmt.Sprintf("H%d|", br.Height)
		for _, x := range br.Txs {
			s += fmt.Sprintf("%d:%x:%d:%d,", x.Code, x.Data, x.GasWanted, x.GasUsed)
		}
		for _, u := range sortedUps(br.ValUpdates) {
			s += fmt.Sprintf("%x=%d,", u.Pub, u.Power)
		}
		s += fmt.Sprintf("|%x\n", br.AppHash)
	}
	return hx(sha([]byte(s)))
}

var c01Saved int

// saveForSecondProcess stores a history with the transcript digest this process computed; the driver
// has a second OS process (other GOMAXPROCS, TZ, GOGC, working directory) recompute and compare it.
func saveForSecondProcess(c *Case) {
	dir := os.Getenv("VERIF_C01_SAVE")
	if dir == "" || c01Saved >= envInt("VERIF_C01_SAVE_N", 12) {
		return
	}
	_ = os.MkdirAll(dir, 0o755)
	d, _ := json.Marshal(transcriptDigest(c.Results))
	c.Hist.Extra = map[string]json.RawMessage{"transcript": d}
	if err := c.Hist.Save(filepath.Join(dir, fmt.Sprintf("%04d.json", c01Saved))); err == nil {
		c01Saved++
	}
	c.Hist.Extra = nil
}

// TestC01Recheck is run by the driver in a second OS process over the histories saved by TestC01.
func TestC01Recheck(t *testing.T) {
	dir := os.Getenv("VERIF_C01_RECHECK")
	if dir == "" {
		t.Skip("driver-only")
	}
	st := newStats("C01")
	defer st.write()
	files, _ := filepath.Glob(filepath.Join(dir, "*.json"))
	sort.Strings(files)
	for _, f := range files {
		h, err := LoadHistory(f)
		if err != nil {
			t.Fatalf("cannot load %s: %v", f, err)
		}
		var want string
		_ = json.Unmarshal(h.Extra["transcript"], &want)
		s, res, rerr := runReplica(h, nil, nil)
		s.Close(true)
		st.label("second_process_histories", 1)
		if rerr != nil {
			dumpFailure(h, "second process: "+rerr.Error())
			t.Fatalf("C01: a second process failed to execute a history the first one executed: %v", rerr)
		}
		if got := transcriptDigest(res); got != want {
			dumpFailure(h, "second process computes another transcript")
			t.Fatalf("C01: a second OS process (GOMAXPROCS=%s TZ=%s) computes transcript %s for a history whose transcript was %s in the first process", os.Getenv("GOMAXPROCS"), os.Getenv("TZ"), got, want)
		}
	}
}

// C01 Replica determinism: two independently started replicas fed the same history
// return identical tx results, validator updates and app hashes.
func TestC01(t *testing.T) {
	p := defaultProfile()
	p.MinBlocks, p.MaxBlocks = 8, 40
	p.Alt, p.PAlt = massExitProfile(), 30
	p.Inject = true
	p.Alt.Inject = true
	p.W["deployp"], p.W["callp"] = 5, 12
	p.W["propose"], p.W["vote"] = 10, 16
	p.PEvidence = 12
	// big state: 8 % of the histories have 600 delegators behind up to 4 validators and blocks of up to 300 txs
	// (whatever depends on sizes - batching, cache eviction, work handed to several goroutines - must not show)
	p.Crowd, p.CrowdUsers = envInt("VERIF_C01_CROWD", 8), 600
	runCheck(t, "C01", p, func(src Source, st *Stats) *Outcome {
		c, err := RunPrimary("C01", src, nil)
		out := &Outcome{Case: c}
		if err != nil {
			if _, isPanic := err.(*PanicError); isPanic {
				return out // counted as ended_by:panic (C09's business)
			}
			out.Err = err
			return out
		}
		// further replicas: other directories, opened later, fresh maps. Histories in which several keys leave
		// one ledger in the same block (the shape on which iteration-order dependence shows with probability < 1)
		// get two more replicas.
		extra := 1
		if c.W.Feat["refund_multi_same_block"] > 0 || c.W.Feat["delegatees_deleted_same_block"] > 0 {
			extra = 3
			st.label("histories_with_multi_removal_block(4 replicas)", 1)
		}
		for r := 0; r < extra; r++ {
			// what a node's mempool and RPC clients happen to ask is node-local too: replica B (only) serves the
			// generated CheckTx/Query schedule of the history while it executes the blocks; the others are quiet.
			var pre func(s *Sim, bi int, b *Block)
			var hooks func(s *Sim, bi int, b *Block) *BlockHooks
			if r == 0 {
				pre = func(s *Sim, bi int, b *Block) { _, _ = runInjected(s, b, -1) }
				hooks = func(s *Sim, bi int, b *Block) *BlockHooks {
					return injectionHooks(s, b, func(int, int32) { st.label("replica_B_accepted_mempool_checks", 1) }, func(*PanicError) {})
				}
			}
			// ... and so is the life of the process: replica B is stopped and reopened after some of the blocks
			// (chosen by the block index alone), A never
			var after func(s *Sim, bi int, b *Block, br *BlockResult) error
			if r == 0 {
				after = func(s *Sim, bi int, b *Block, br *BlockResult) error {
					if bi >= 1 && bi < len(c.Hist.Blocks)-1 && sha([]byte{byte(bi), byte(len(c.Hist.Blocks))})[0]%5 == 0 {
						st.label("replica_B_restarts", 1)
						if _, perr := s.Restart(); perr != nil {
							return perr
						}
					}
					return nil
				}
			}
			sb, resB, rerr := runReplicaPre(c.Hist, pre, hooks, after)
			if rerr != nil {
				sb.Close(true)
				out.Err = violationf("replica %c failed where replica A did not: %v", 'B'+r, rerr)
				return out
			}
			for i := range c.Results {
				if d := diffBlock(c.Results[i], resB[i]); d != "" {
					sb.Close(true)
					out.Err = violationf("replicas A and %c diverge: %s", 'B'+r, d)
					return out
				}
			}
			if sb.H != c.Sim.H || !bytes.Equal(sb.AppHash, c.Sim.AppHash) {
				sb.Close(true)
				out.Err = violationf("final state differs: %d/%x vs %d/%x", c.Sim.H, c.Sim.AppHash, sb.H, sb.AppHash)
				return out
			}
			sb.Close(true)
		}
		// non-trivial: some block wrote >= 2 distinct keys of one ledger, plus a contract tx and a validator-set change
		multi, contract, valchg := false, c.W.Feat["ok_deploy"]+c.W.Feat["ok_call"] > 0, false
		for bi, outs := range c.Outcomes {
			senders := 0
			for _, o := range outs {
				if o.OK {
					senders++
				}
			}
			if senders >= 2 {
				multi = true
			}
			if bi >= 2 && len(c.Results[bi].ValUpdates) > 0 {
				valchg = true
			}
		}
		if c.W.Feat["reward_round_multi_staker"] > 0 {
			multi = true
		}
		if multi {
			st.label("nontrivial:multi_key_block", 1)
		}
		if contract {
			st.label("nontrivial:contract_tx", 1)
		}
		if valchg {
			st.label("nontrivial:validator_set_change", 1)
		}
		out.Nontrivial = multi && (contract || valchg)
		if out.Nontrivial || c01Saved%2 == 0 {
			saveForSecondProcess(c)
		}
		out.Shape = c.shape()
		return out
	})
}
