//go:build verif

package harness

import (
	"bytes"
	"testing"
)

// C01 Replica determinism: two independently started replicas fed the same history
// return identical tx results, validator updates and app hashes.
func TestC01(t *testing.T) {
	p := defaultProfile()
	p.MinBlocks, p.MaxBlocks = 8, 40
	runCheck(t, "C01", p, func(src Source, st *Stats) *Outcome {
		c, err := RunPrimary("C01", src, nil)
		out := &Outcome{Case: c}
		if err != nil {
			if _, isPanic := err.(*PanicError); isPanic {
				return out // counted as ended_by:panic (C09's business)
			}
			out.Err = err
			return out
		}
		// second replica: other directory, opened later, fresh maps
		sb, resB, rerr := runReplica(c.Hist, nil, nil)
		defer sb.Close(true)
		if rerr != nil {
			out.Err = violationf("replica B failed where replica A did not: %v", rerr)
			return out
		}
		for i := range c.Results {
			if d := diffBlock(c.Results[i], resB[i]); d != "" {
				out.Err = violationf("replicas diverge: %s", d)
				return out
			}
		}
		if sb.H != c.Sim.H || !bytes.Equal(sb.AppHash, c.Sim.AppHash) {
			out.Err = violationf("final state differs: %d/%x vs %d/%x", c.Sim.H, c.Sim.AppHash, sb.H, sb.AppHash)
			return out
		}
		// non-trivial: some block wrote >= 2 distinct keys of one ledger, plus a contract tx and a validator-set change
		multi, contract, valchg := false, c.W.Feat["ok_deploy"]+c.W.Feat["ok_call"] > 0, false
		for bi, outs := range c.Outcomes {
			senders := 0
			for _, o := range outs {
				if o.OK {
					senders++
				}
			}
			if senders >= 2 {
				multi = true
			}
			if bi >= 2 && len(c.Results[bi].ValUpdates) > 0 {
				valchg = true
			}
		}
		if c.W.Feat["reward_round_multi_staker"] > 0 {
			multi = true
		}
		if multi {
			st.label("nontrivial:multi_key_block", 1)
		}
		if contract {
			st.label("nontrivial:contract_tx", 1)
		}
		if valchg {
			st.label("nontrivial:validator_set_change", 1)
		}
		out.Nontrivial = multi && (contract || valchg)
		out.Shape = c.shape()
		return out
	})
}
