//go:build verif

package harness

import (
	"bytes"
	"encoding/hex"
	"fmt"
	"math/big"
	"os"
	"strings"

	"github.com/ethereum/go-ethereum/common"
	ethcore "github.com/ethereum/go-ethereum/core"
	ethcrypto "github.com/ethereum/go-ethereum/crypto"
	"github.com/holiman/uint256"
	ctypes "github.com/rigochain/rigo-go/ctrlers/types"
)

// isContractPath: does this tx run through the EVM according to the reference world?
func (w *World) isContractPath(tx *ctypes.Trx) bool {
	if tx.Type == ctypes.TRX_CONTRACT {
		return true
	}
	if tx.Type != ctypes.TRX_TRANSFER || len(tx.To) != 20 {
		return false
	}
	if w.EVM != nil {
		if w.EVM.hasCode(tx.To) {
			return true
		}
		// ex-contract: a plain account for the EVM, while the application may still route transfers to it through
		// the EVM (it keeps the native code marker). Both are a plain value transfer; see ApplyTx for the charge.
		return w.Dead[ak(tx.To)]
	}
	rc, ok := w.Accts[ak(tx.To)]
	return ok && rc.Code != nil
}

// admitted: every pre-EVM admission condition the properties name holds for tx
// (signature, nonce, price, minimum fee, funds for amount + gas limit * price, intrinsic gas).
func (w *World) admitted(tx *ctypes.Trx) bool {
	if len(tx.From) != 20 || len(tx.To) != 20 || !sigRecovers(tx, w.ChainID) || !w.hasAcct(tx.From) {
		return false
	}
	p := w.Params
	snd := w.acct(tx.From)
	if tx.Nonce != snd.Nonce || tx.GasPrice.Cmp(p.gasPrice()) != 0 || tx.Gas > 1<<62 {
		return false
	}
	fee, ovf := new(uint256.Int).MulOverflow(tx.GasPrice, u256(tx.Gas))
	if ovf || fee.Cmp(p.minTrxFee()) < 0 {
		return false
	}
	need, ovf := new(uint256.Int).AddOverflow(fee, tx.Amount)
	if ovf || need.Cmp(snd.Bal) > 0 {
		return false
	}
	var data []byte
	if pl, ok := tx.Payload.(*ctypes.TrxPayloadContract); ok {
		data = pl.Data
	}
	ig, err := ethcore.IntrinsicGas(data, nil, isZero20(tx.To), true, true)
	if err != nil || tx.Gas < ig {
		// A plain transfer to a contract is only checked against the native minimum before it reaches the EVM;
		// go-ethereum then buys the gas, refuses the message for its intrinsic gas and keeps the bought gas out of
		// the block's gas pool. The pool is a block resource no property talks about, but it decides whether a later
		// message that asks for (almost) the whole block limit still fits: mirror it.
		if err == nil && tx.Type == ctypes.TRX_TRANSFER && w.EVM != nil && w.EVM.gp != nil {
			_ = w.EVM.gp.SubGas(tx.Gas)
			w.Feat["evm_pool_gas_kept_by_refused_transfer"]++
		}
		return false
	}
	return true
}

// applyEVMTx handles a contract-path tx in C17 mode: runs the reference EVM and compares.
// It returns true when the model state was updated from the reference (success).
func (w *World) applyEVMTx(tx *ctypes.Trx, raw []byte, res TxResult, out *TxOutcome) {
	hash := txHashOf(raw)
	if !w.admitted(tx) {
		w.PreMiss["C17:tx_not_admitted_before_the_EVM"]++
		if res.Code == 0 {
			// other properties own the admission rules; keep the model usable by adopting nothing
			w.fail("C16", "contract-path tx accepted although an admission condition (signature, nonce, price, fee, funds, intrinsic gas) does not hold")
		}
		out.Reason = classifyLog(res.Log)
		return
	}
	ref := w.EVM.Exec(w, tx, hash, w.txIdx, w.curH, w.cur.Proposer)
	w.Feat["evm_tx_compared"]++
	if os.Getenv("VERIF_TRACE") != "" {
		fmt.Printf("TRACE h=%d tx %x from=%x to=%x amt=%s gas=%d: app code=%d gasUsed=%d | ref failed=%v err=%q gasUsed=%d created=%x\n", w.curH, hash[:4], tx.From[:4], tx.To[:4], tx.Amount.Dec(), tx.Gas, res.Code, res.GasUsed, ref.Failed, ref.Err, ref.GasUsed, ref.Created)
		if a := os.Getenv("VERIF_TRACE_ADDR"); a != "" {
			for k, ac := range w.Accts {
				if strings.HasPrefix(k, a) {
					fmt.Printf("TRACE    model %s bal=%s nonce=%d dead=%v universe=%v refbal=%s\n", k[:8], ac.Bal.Dec(), ac.Nonce, w.Dead[k], w.EVM.universe[k], w.EVM.db.GetBalance(common.BytesToAddress(unhx(k))))
				}
			}
		}
	}
	if ref.Failed {
		w.Feat["evm_ref_failed"]++
		if res.Code == 0 {
			w.fail("C17", "tx %x succeeds, the reference EVM fails with %q", hash[:6], ref.Err)
			return
		}
		out.Reason, out.Late = "evm", true
		if !bytes.Equal(res.Data, ref.Ret) && len(ref.Ret) > 0 {
			w.fail("C17", "failed tx %x returns data %x, reference returns %x", hash[:6], res.Data, ref.Ret)
		}
		return
	}
	if res.Code != 0 {
		w.fail("C17", "tx %x fails (%s), the reference EVM succeeds (gas used %d)", hash[:6], trunc(strings.ReplaceAll(res.Log, "\n", " "), 160), ref.GasUsed)
		// the reference already applied its effects; undo is not possible on the shared state: stop trusting this case
		w.evmDiverged = true
		// whatever the reason of the failure: a failed tx leaves the sender's nonce alone (the model's nonce now
		// includes the bump the reference made)
		if w.refOKButFailed == nil {
			w.refOKButFailed = map[string]int{}
		}
		w.refOKButFailed[ak(tx.From)]++
		return
	}
	out.OK = true
	w.succeeded[hx(hash)] = w.curH
	if uint64(res.GasUsed) != ref.GasUsed {
		w.fail("C17", "tx %x used gas %d, reference %d", hash[:6], res.GasUsed, ref.GasUsed)
	}
	wantData := ref.Ret
	if ref.Created != nil {
		wantData = ref.Created
	}
	if !bytes.Equal(res.Data, wantData) {
		w.fail("C17", "tx %x returns %x, reference returns %x", hash[:6], res.Data, wantData)
	}
	// logs
	if got, want := evmEventAttrs(res), refEventAttrs(ref); got != want {
		w.fail("C17", "tx %x: evm event attributes differ:\n  app: %s\n  ref: %s", hash[:6], got, want)
	}
	if len(ref.Logs) > 0 {
		w.Feat["evm_logs"]++
	}
	fee := new(uint256.Int).Mul(u256(ref.GasUsed), w.Params.gasPrice())
	w.feeSum.Add(w.feeSum, fee)
	w.cause(tx.From, "contract")
	if ref.Created != nil {
		c := w.acct(ref.Created)
		c.Code = hash
		w.Contracts[ak(ref.Created)] = "program"
		w.Feat["ok_deploy"]++
	} else if tx.Type == ctypes.TRX_TRANSFER {
		w.Feat["ok_transfer_to_contract"]++
	} else {
		w.Feat["ok_call"]++
	}
	// contracts created by inner CREATEs
	for _, k := range sortedKeys(w.Contracts) {
		ca := common.BytesToAddress(unhx(k))
		for n := uint64(1); n <= 3; n++ {
			child := ethcrypto.CreateAddress(ca, n)
			if w.EVM.hasCode(child[:]) {
				if _, known := w.Contracts[ak(child[:])]; !known {
					w.Contracts[ak(child[:])] = "child"
					w.EVM.universe[ak(child[:])] = true
					w.acct(child[:]).Code = hash
					w.Feat["inner_create"]++
				}
			} else if _, known := w.Contracts[ak(child[:])]; known {
				// code gone: self-destructed
				delete(w.Contracts, ak(child[:]))
				w.Feat["child_selfdestructed"]++
			}
		}
		if !w.EVM.hasCode(ca[:]) {
			delete(w.Contracts, k)
			w.Feat["contract_selfdestructed"]++
		}
	}
}

func evmEventAttrs(res TxResult) string {
	var parts []string
	for _, e := range res.Events {
		if e.Type != "evm" {
			continue
		}
		for _, a := range e.Attributes {
			if string(a.Key) == "contractAddress" {
				continue
			}
			parts = append(parts, string(a.Key)+"="+strings.ToLower(string(a.Value)))
		}
	}
	return strings.Join(parts, ",")
}

func refEventAttrs(ref *RefResult) string {
	var parts []string
	for _, l := range ref.Logs {
		parts = append(parts, "contract="+hex.EncodeToString(l.Address[:]))
		for i, t := range l.Topics {
			parts = append(parts, fmt.Sprintf("topic.%d=%s", i, hex.EncodeToString(t.Bytes())))
		}
		if len(l.Data) > 0 {
			parts = append(parts, "data="+hex.EncodeToString(l.Data))
		}
		parts = append(parts, "removed=false")
	}
	return strings.Join(parts, ",")
}

// CompareEVM compares code and storage (slots 0..15) of every known contract address with the
// application's EVM state committed at height h, plus the native code markers.
func (w *World) CompareEVM(s *Sim, h int64) {
	st, xerr := s.App.VerifEVM().ImmutableStateAt(h)
	if xerr != nil {
		w.fail("C17", "cannot open the EVM state at height %d: %v", h, xerr)
		return
	}
	for k := range w.EVM.universe {
		addr := common.BytesToAddress(unhx(k))
		gc, rc := st.GetCode(addr), w.EVM.db.GetCode(addr)
		if !bytes.Equal(gc, rc) {
			w.fail("C17", "contract %s: code %x, reference %x", k[:8], gc, rc)
		}
		for slot := 0; slot < 16; slot++ {
			key := common.BigToHash(big.NewInt(int64(slot)))
			if gv, rv := st.GetState(addr, key), w.EVM.db.GetState(addr, key); gv != rv {
				w.fail("C17", "contract %s slot %d: %x, reference %x", k[:8], slot, gv, rv)
			}
		}
	}
}
