//go:build verif

package harness

import (
	"fmt"
	"testing"

	ctypes "github.com/rigochain/rigo-go/ctrlers/types"
)

func mkTx(w *World, from *Actor, to []byte, typ int32, amt uint64, pl ctypes.ITrxPayload, gas uint64) []byte {
	tx := &ctypes.Trx{Version: 1, Time: 1, Nonce: w.acct(from.Addr).Nonce, From: from.Addr, To: to, Amount: u256(amt), Gas: gas, GasPrice: w.Params.gasPrice(), Type: typ, Payload: pl}
	signTrx(from, tx, w.ChainID)
	return encodeTrx(tx)
}

func TestExplore(t *testing.T) {
	g := &Genesis{ChainID: "verif-chain", Params: baseParams()}
	for i := 0; i < 3; i++ {
		n := fmt.Sprintf("V%d", i)
		g.Validators = append(g.Validators, GenVal{n, 10})
		g.Balances = append(g.Balances, GenBal{n, rigo(100).Dec()})
	}
	g.Balances = append(g.Balances, GenBal{"U0", rigo(100).Dec()})
	hist := &History{Genesis: g}
	v0, u0 := actorNamed("V0"), actorNamed("U0")
	w := NewWorld(g)
	s := NewSim(g)
	defer s.Close(true)
	step := func(txs ...[]byte) *BlockResult {
		b := &Block{Proposer: v0.Addr, Txs: txs}
		if w.H >= 1 {
			for _, e := range setEntries(w.TM.At(w.H)) {
				b.Votes = append(b.Votes, Vote{e.Addr, e.Power, true})
			}
		}
		hist.Blocks = append(hist.Blocks, b)
		w.BeginBlock(b)
		br, perr := s.RunBlock(b, &BlockHooks{AfterTx: func(i int, r TxResult) { o := w.ApplyTx(txs[i], r); fmt.Println("  tx", i, o, r.Log) }})
		if perr != nil {
			t.Fatal(perr)
		}
		w.EndBlock(br)
		w.Commit()
		w.TM.ApplyEndBlock(br.Height, br.ValUpdates)
		return br
	}
	step()
	step()
	step(mkTx(w, u0, v0.Addr, ctypes.TRX_STAKING, 0, &ctypes.TrxPayloadStaking{}, 10))
	txs := mkTx(w, u0, v0.Addr, ctypes.TRX_STAKING, 0, &ctypes.TrxPayloadStaking{}, 10)
	_ = txs
	tx := &ctypes.Trx{Version: 1, Time: 1, Nonce: w.acct(u0.Addr).Nonce, From: u0.Addr, To: v0.Addr, Amount: rigo(3), Gas: 10, GasPrice: w.Params.gasPrice(), Type: ctypes.TRX_STAKING, Payload: &ctypes.TrxPayloadStaking{}}
	signTrx(u0, tx, w.ChainID)
	step(encodeTrx(tx))
	prop := mkTx(w, v0, make([]byte, 20), ctypes.TRX_PROPOSAL, 0, &ctypes.TrxPayloadProposal{Message: "m", StartVotingHeight: w.H + 2, VotingPeriodBlocks: 2, ApplyingHeight: w.H + 2 + 2 + 1, OptType: 0x0101, Options: [][]byte{[]byte(`{"gasPrice":"11"}`), []byte(`{"slashRatio":"7"}`)}}, 10)
	step(prop)
	ph := txHashOf(prop)
	vote := mkTx(w, v0, make([]byte, 20), ctypes.TRX_VOTING, 0, &ctypes.TrxPayloadVoting{TxHash: ph, Choice: 1}, 10)
	step(vote)
	for _, q := range []struct {
		p string
		d []byte
	}{{"account", u0.Addr}, {"account", actorNamed("nobody").Addr}, {"delegatee", v0.Addr}, {"delegatee", u0.Addr}, {"stakes", u0.Addr}, {"stakes/total_power", nil}, {"stakes/voting_power", nil}, {"reward", u0.Addr}, {"reward", actorNamed("nobody").Addr}, {"proposal", ph}, {"proposal", nil}, {"gov_params", nil}, {"account", nil}} {
		r, _ := s.Query(q.p, q.d, 0)
		fmt.Printf("%s(%x) code=%d log=%q\n  %s\n", q.p, q.d, r.Code, r.Log, r.Value)
	}
	r, _ := s.Query("account", u0.Addr, 99)
	fmt.Printf("future: code=%d log=%q val=%s\n", r.Code, r.Log, r.Value)
	fmt.Println(w.Viol)
}
