//go:build verif

package harness

import (
	"sync"
	"time"

	tmrpccore "github.com/tendermint/tendermint/rpc/core"
	tmtypes "github.com/tendermint/tendermint/types"
)

// fakeBlockStore gives rpc/core.Block (used by the vm_call query path) the headers the
// harness fed to the application: block h has time blockTime0+3h.
type fakeBlockStore struct {
	mu  sync.Mutex
	tip int64
}

var theFakeStore = &fakeBlockStore{}
var fakeStoreOnce sync.Once

func installFakeBlockStore() {
	fakeStoreOnce.Do(func() {
		tmrpccore.SetEnvironment(&tmrpccore.Environment{BlockStore: theFakeStore})
	})
}

func (f *fakeBlockStore) setTip(h int64) { f.mu.Lock(); f.tip = h; f.mu.Unlock() }

func (f *fakeBlockStore) Base() int64 { return 1 }
func (f *fakeBlockStore) Height() int64 {
	f.mu.Lock()
	defer f.mu.Unlock()
	return f.tip
}
func (f *fakeBlockStore) Size() int64                      { return f.Height() }
func (f *fakeBlockStore) LoadBaseMeta() *tmtypes.BlockMeta { return nil }
func (f *fakeBlockStore) LoadBlockMeta(height int64) *tmtypes.BlockMeta {
	return nil
}
func (f *fakeBlockStore) LoadBlock(height int64) *tmtypes.Block {
	if height < 1 || height > f.Height() {
		return nil
	}
	return &tmtypes.Block{Header: tmtypes.Header{Height: height, Time: time.Unix(blockTime0+3*height, 0).UTC()}}
}
func (f *fakeBlockStore) SaveBlock(block *tmtypes.Block, blockParts *tmtypes.PartSet, seenCommit *tmtypes.Commit) {
}
func (f *fakeBlockStore) PruneBlocks(height int64) (uint64, error)            { return 0, nil }
func (f *fakeBlockStore) LoadBlockByHash(hash []byte) *tmtypes.Block          { return nil }
func (f *fakeBlockStore) LoadBlockPart(height int64, index int) *tmtypes.Part { return nil }
func (f *fakeBlockStore) LoadBlockCommit(height int64) *tmtypes.Commit        { return nil }
func (f *fakeBlockStore) LoadSeenCommit(height int64) *tmtypes.Commit         { return nil }
