//go:build verif

package harness

import (
	"bytes"
	"fmt"
	"math"
	"math/big"
	"testing"

	ethcrypto "github.com/ethereum/go-ethereum/crypto"
	"github.com/holiman/uint256"
	ctypes "github.com/rigochain/rigo-go/ctrlers/types"
	"pgregory.net/rapid"
)

// execTuple renders every field of a decoded tx that influences execution (signature excluded).
func execTuple(tx *ctypes.Trx) string {
	s := fmt.Sprintf("v=%d|t=%d|n=%d|f=%x|to=%x|a=%s|g=%d|p=%s|ty=%d|", tx.Version, tx.Time, tx.Nonce, []byte(tx.From), []byte(tx.To), tx.Amount.Hex(), tx.Gas, tx.GasPrice.Hex(), tx.Type)
	switch pl := tx.Payload.(type) {
	case nil:
		s += "nil"
	case *ctypes.TrxPayloadUnstaking:
		s += fmt.Sprintf("un:%x", []byte(pl.TxHash))
	case *ctypes.TrxPayloadWithdraw:
		s += "wd:" + pl.ReqAmt.Hex()
	case *ctypes.TrxPayloadProposal:
		s += fmt.Sprintf("pr:%q|%d|%d|%d|%d|%d", pl.Message, pl.StartVotingHeight, pl.VotingPeriodBlocks, pl.ApplyingHeight, pl.OptType, len(pl.Options))
		for _, o := range pl.Options {
			s += fmt.Sprintf("|%x", o)
		}
	case *ctypes.TrxPayloadVoting:
		s += fmt.Sprintf("vo:%x|%d", []byte(pl.TxHash), pl.Choice)
	case *ctypes.TrxPayloadContract:
		s += fmt.Sprintf("co:%x", pl.Data)
	case *ctypes.TrxPayloadSetDoc:
		s += fmt.Sprintf("sd:%q|%q", pl.Name, pl.URL)
	default:
		s += fmt.Sprintf("other:%T", pl)
	}
	return s
}

func anyU256(t *rapid.T, label string) *uint256.Int {
	switch unif(t, 6, label) {
	case 0:
		return u256(0)
	case 1:
		return new(uint256.Int).Not(u256(0))
	case 2:
		return new(uint256.Int).Lsh(u256(1), uint(unif(t, 256, label+"sh")))
	case 3:
		return u256(rapid.Uint64().Draw(t, label+"64"))
	default:
		b := rapid.SliceOfN(rapid.Byte(), 0, 32).Draw(t, label+"b")
		return new(uint256.Int).SetBytes(b)
	}
}

func anyInt64(t *rapid.T, label string) int64 {
	if pct(t, 30, label+"edge") {
		return pick(t, []int64{0, 1, -1, math.MaxInt64, math.MinInt64, 255, 256, 65535, 65536, 1 << 32}, label+"e")
	}
	return rapid.Int64().Draw(t, label)
}

func anyAddr(t *rapid.T, label string) []byte {
	n := pick(t, []int{20, 20, 20, 0, 1, 19, 21, 32, 40}, label+"len")
	return rapid.SliceOfN(rapid.Byte(), n, n).Draw(t, label)
}

func anyPayload(t *rapid.T, typ int32) ctypes.ITrxPayload {
	switch typ {
	case ctypes.TRX_UNSTAKING:
		return &ctypes.TrxPayloadUnstaking{TxHash: rapid.SliceOfN(rapid.Byte(), 0, 40).Draw(t, "plHash")}
	case ctypes.TRX_WITHDRAW:
		return &ctypes.TrxPayloadWithdraw{ReqAmt: anyU256(t, "plReq")}
	case ctypes.TRX_PROPOSAL:
		n := unif(t, 4, "plNOpts")
		var opts [][]byte
		for i := 0; i < n; i++ {
			opts = append(opts, rapid.SliceOfN(rapid.Byte(), 0, 12).Draw(t, "plOpt"))
		}
		return &ctypes.TrxPayloadProposal{Message: rapid.StringN(0, 8, 16).Draw(t, "plMsg"), StartVotingHeight: anyInt64(t, "plStart"), VotingPeriodBlocks: anyInt64(t, "plPeriod"),
			ApplyingHeight: anyInt64(t, "plApply"), OptType: int32(anyInt64(t, "plOptType")), Options: opts}
	case ctypes.TRX_VOTING:
		return &ctypes.TrxPayloadVoting{TxHash: rapid.SliceOfN(rapid.Byte(), 0, 40).Draw(t, "plVHash"), Choice: int32(anyInt64(t, "plChoice"))}
	case ctypes.TRX_CONTRACT:
		return &ctypes.TrxPayloadContract{Data: rapid.SliceOfN(rapid.Byte(), 0, 24).Draw(t, "plData")}
	case ctypes.TRX_SETDOC:
		return &ctypes.TrxPayloadSetDoc{Name: rapid.StringN(0, 6, 12).Draw(t, "plName"), URL: rapid.StringN(0, 6, 12).Draw(t, "plURL")}
	}
	return nil
}

func anyTrx(t *rapid.T) *ctypes.Trx {
	typ := int32(1 + unif(t, 8, "type"))
	return &ctypes.Trx{Version: uint32(anyInt64(t, "version")), Time: anyInt64(t, "time"), Nonce: uint64(anyInt64(t, "nonce")), From: anyAddr(t, "from"), To: anyAddr(t, "to"),
		Amount: anyU256(t, "amount"), Gas: uint64(anyInt64(t, "gas")), GasPrice: anyU256(t, "price"), Type: typ, Payload: anyPayload(t, typ)}
}

func cloneTrx(tx *ctypes.Trx) *ctypes.Trx {
	raw := encodeTrx(tx)
	n := &ctypes.Trx{}
	if xerr := n.Decode(raw); xerr != nil {
		return nil
	}
	return n
}

var chainIDs = []string{"verif-chain", "verif-chain2", "verif-chai", "verif", "", "verif-chain\n", "verif-chain) Signed Message:\n1", "1", "11"}

// mutateTrx changes 1..3 semantic fields (or nothing but the chain id).
func mutateTrx(t *rapid.T, tx *ctypes.Trx) (string, bool) {
	what := ""
	n := 1 + unif(t, 3, "nMut")
	for i := 0; i < n; i++ {
		switch unif(t, 11, "mutField") {
		case 0:
			tx.Version = uint32(anyInt64(t, "mVersion"))
			what += "version,"
		case 1:
			tx.Time = pick(t, []int64{tx.Time + 1, tx.Time - 1, -tx.Time, tx.Time ^ (1 << 40), anyInt64(t, "mTime")}, "mTimeK")
			what += "time,"
		case 2:
			tx.Nonce = pick(t, []uint64{tx.Nonce + 1, tx.Nonce - 1, tx.Nonce << 8, tx.Nonce ^ 0x100}, "mNonce")
			what += "nonce,"
		case 3:
			tx.From = mutBytes(t, tx.From, "mFrom")
			what += "from,"
		case 4:
			tx.To = mutBytes(t, tx.To, "mTo")
			what += "to,"
		case 5:
			tx.Amount = mutU256(t, tx.Amount, "mAmount")
			what += "amount,"
		case 6:
			tx.Gas = pick(t, []uint64{tx.Gas + 1, tx.Gas - 1, tx.Gas << 8, tx.Gas ^ (1 << 33)}, "mGas")
			what += "gas,"
		case 7:
			tx.GasPrice = mutU256(t, tx.GasPrice, "mPrice")
			what += "price,"
		case 8:
			nt := int32(1 + unif(t, 8, "mType"))
			if pct(t, 20, "mTypeOdd") {
				nt = pick(t, []int32{tx.Type + 256, tx.Type - 256, -tx.Type, tx.Type | (1 << 16)}, "mTypeOddV")
			}
			tx.Type = nt
			what += "type,"
		case 9, 10:
			what += "payload," + mutPayload(t, tx)
		}
	}
	return what, true
}

func mutBytes(t *rapid.T, b []byte, label string) []byte {
	c := append([]byte(nil), b...)
	switch unif(t, 4, label+"K") {
	case 0:
		if len(c) > 0 {
			c[unif(t, len(c), label+"At")] ^= byte(1 << uint(unif(t, 8, label+"Bit")))
			return c
		}
		return []byte{1}
	case 1:
		return append(c, 0)
	case 2:
		if len(c) > 0 {
			return c[:len(c)-1]
		}
		return []byte{0}
	default:
		return append([]byte{0}, c...)
	}
}

func mutU256(t *rapid.T, v *uint256.Int, label string) *uint256.Int {
	switch unif(t, 4, label+"K") {
	case 0:
		return new(uint256.Int).Add(v, u256(1))
	case 1:
		return new(uint256.Int).Sub(v, u256(1))
	case 2:
		return new(uint256.Int).Lsh(v, 8)
	default:
		return new(uint256.Int).Xor(v, new(uint256.Int).Lsh(u256(1), uint(unif(t, 256, label+"Bit"))))
	}
}

func mutPayload(t *rapid.T, tx *ctypes.Trx) string {
	switch pl := tx.Payload.(type) {
	case *ctypes.TrxPayloadUnstaking:
		pl.TxHash = mutBytes(t, pl.TxHash, "mpHash")
		return "txhash"
	case *ctypes.TrxPayloadWithdraw:
		pl.ReqAmt = mutU256(t, pl.ReqAmt, "mpReq")
		return "reqamt"
	case *ctypes.TrxPayloadProposal:
		switch unif(t, 7, "mpPropField") {
		case 0:
			pl.Message += "x"
		case 1:
			pl.StartVotingHeight = pick(t, []int64{pl.StartVotingHeight + 1, -pl.StartVotingHeight, pl.StartVotingHeight ^ (1 << 32)}, "mpStart")
		case 2:
			pl.VotingPeriodBlocks = pick(t, []int64{pl.VotingPeriodBlocks + 1, -pl.VotingPeriodBlocks, pl.VotingPeriodBlocks ^ (1 << 32)}, "mpPeriod")
		case 3:
			pl.ApplyingHeight = pick(t, []int64{pl.ApplyingHeight + 1, -pl.ApplyingHeight, pl.ApplyingHeight ^ (1 << 32)}, "mpApply")
		case 4:
			pl.OptType = pick(t, []int32{pl.OptType + 1, -pl.OptType, pl.OptType ^ (1 << 8), pl.OptType ^ (1 << 16), pl.OptType + 256}, "mpOptType")
		case 5:
			pl.Options = append(pl.Options, []byte{})
		case 6:
			if len(pl.Options) > 0 {
				i := unif(t, len(pl.Options), "mpOptIdx")
				pl.Options[i] = mutBytes(t, pl.Options[i], "mpOpt")
			} else {
				pl.Options = [][]byte{{1}}
			}
		}
		return "proposal"
	case *ctypes.TrxPayloadVoting:
		if pct(t, 50, "mpVoteWhich") {
			pl.TxHash = mutBytes(t, pl.TxHash, "mpVHash")
		} else {
			pl.Choice = pick(t, []int32{pl.Choice + 1, pl.Choice - 1, -pl.Choice, pl.Choice + 256, pl.Choice ^ (1 << 8), pl.Choice ^ (1 << 16), pl.Choice ^ math.MinInt32}, "mpChoice")
		}
		return "voting"
	case *ctypes.TrxPayloadContract:
		pl.Data = mutBytes(t, pl.Data, "mpData")
		return "data"
	case *ctypes.TrxPayloadSetDoc:
		if pct(t, 50, "mpDocWhich") {
			pl.Name += "x"
		} else {
			pl.URL += "x"
		}
		return "setdoc"
	}
	return "none"
}

// layer (a): whatever differs in the executed tuple (or the chain id) changes the signed preimage.
func checkInjectivityPair(t *rapid.T) (nontrivial bool, shape string, err error) {
	a := anyTrx(t)
	da := cloneTrx(a)
	if da == nil {
		return false, "", nil
	}
	b := cloneTrx(a)
	what, _ := mutateTrx(t, b)
	chainA := pick(t, chainIDs, "chainA")
	chainB := chainA
	if pct(t, 25, "mutChain") {
		chainB = pick(t, chainIDs, "chainB")
		what += "chain,"
	}
	db := cloneTrx(b)
	if db == nil {
		return false, "", nil
	}
	ta, tb := execTuple(da), execTuple(db)
	if ta == tb && chainA == chainB {
		return false, "", nil // mutation was not semantic after the round trip
	}
	pa, x1 := ctypes.PreImageToSignTrxRLP(da, chainA)
	pb, x2 := ctypes.PreImageToSignTrxRLP(db, chainB)
	if x1 != nil || x2 != nil {
		return false, "", nil
	}
	if bytes.Equal(pa, pb) {
		return true, what, fmt.Errorf("two transactions that differ in what is executed (%s) have the same signed preimage:\n  A(chain %q): %s\n  B(chain %q): %s", what, chainA, ta, chainB, tb)
	}
	return true, fmt.Sprintf("%d:%s", da.Type, what), nil
}

var secpN, _ = new(big.Int).SetString("fffffffffffffffffffffffffffffffebaaedce6af48a03bbfd25e8cd0364141", 16)

// C03: only the key holder can cause a transaction's effects.
func TestC03(t *testing.T) {
	p := defaultProfile()
	p.MinBlocks, p.MaxBlocks = 3, 10
	p.PFault = 14 // the prior history carries forged transactions of every type too (flipped/foreign/missing signatures, other chain id)
	p.PEvidence, p.PAbsent = 0, 0
	p.W["raw"], p.W["replay"] = 0, 0
	st := newStats("C03")
	defer st.write()
	if os := envOr("VERIF_REPLAY", ""); os != "" {
		// replay: the history contains the mutant as the only tx of its last block
		h, err := LoadHistory(os)
		if err != nil {
			t.Fatal(err)
		}
		if err := replayC03(h); err != nil {
			t.Fatalf("C03 replay: %v", err)
		}
		st.caseDone(true, "replay", nil)
		return
	}
	rapid.Check(t, func(rt *rapid.T) {
		// ---- layer (a): 30 generated pairs ----
		for i := 0; i < 30; i++ {
			nt, shape, err := checkInjectivityPair(rt)
			st.label("pairs", 1)
			if nt {
				st.label("pairs_semantically_different", 1)
				st.mu.Lock()
				st.Shapes[shortHash("pair:"+shape)] = true
				st.mu.Unlock()
			}
			if err != nil {
				dumpOps("C03", map[string]string{"layer": "injectivity", "detail": err.Error()}, 1, err.Error())
				rt.Fatalf("C03: %v", err)
			}
		}
		// ---- layer (b): end to end on a live application ----
		src := NewGenSource(rt, p)
		// frame condition while the history runs: what a key holder owns - balance and withdrawable reward of his
		// account - never shrinks in a block in which no transaction sent (and signed) by him succeeded
		var prevApp *AppState
		c, err := RunPrimary("C03", src, &PrimaryOpts{AfterCommit: func(c *Case, b *Block, br *BlockResult) error {
			a, perr := readAppState(c.Sim)
			if perr != nil {
				return perr
			}
			acted := map[string]bool{}
			outs := c.Outcomes[len(c.Outcomes)-1]
			for i, raw := range b.Txs {
				tx := &ctypes.Trx{}
				if i < len(outs) && outs[i].OK && tx.Decode(raw) == nil {
					acted[ak(tx.From)] = true
				}
			}
			if prevApp != nil {
				for _, g := range c.Hist.Genesis.Balances {
					k := ak(actorNamed(g.Actor).Addr)
					if acted[k] {
						continue
					}
					if was, ok := prevApp.Accts[k]; ok {
						if now, ok2 := a.Accts[k]; !ok2 || now.Bal.Cmp(was.Bal) < 0 {
							c.W.fail("C03", "the balance of %s (%s) shrank in a block in which no transaction of that account succeeded", g.Actor, k[:8])
						}
					}
					if was, ok := prevApp.Rewards[k]; ok {
						if now, ok2 := a.Rewards[k]; !ok2 || now.Cum.Cmp(was.Cum) < 0 {
							c.W.fail("C03", "the withdrawable reward of %s (%s) shrank in a block in which no transaction of that account succeeded", g.Actor, k[:8])
						}
					}
				}
				st.label("blocks_checked_for_third_party_loss", 1)
			}
			prevApp = a
			return nil
		}})
		if c != nil && c.Sim != nil {
			defer c.Sim.Close(true)
		}
		// every transaction the history accepted must carry a signature that recovers its sender for this chain
		// (recomputed by the model with go-ethereum's SigToPub over the delivered fields)
		if c != nil && c.W != nil {
			if vs := c.W.violationsOf("C03"); len(vs) > 0 {
				dumpFailure(c.Hist, vs[0].Msg)
				rt.Fatalf("C03: %s", vs[0].Msg)
			}
		}
		if err != nil || c.EndedBy != "" {
			st.caseDone(false, "", nil)
			return
		}
		sb, _, rerr := runReplica(c.Hist, nil, nil)
		defer sb.Close(true)
		if rerr != nil {
			st.caseDone(false, "", nil)
			return
		}
		st.absorbCase(c)
		nMut := 3 + unif(rt, 4, "nMutants")
		nontrivial := 0
		shape := ""
		for k := 0; k < nMut; k++ {
			// a valid tx that would succeed
			c.W.curH = c.W.H + 1
			var raw0 []byte
			var note string
			tx0 := &ctypes.Trx{}
			valid := false
			for try := 0; try < 6 && !valid; try++ {
				raw0, note = src.genTx(c.W, &Block{})
				r0, _ := sb.CheckTx(raw0)
				valid = r0.Code == 0 && tx0.Decode(raw0) == nil && sigRecovers(tx0, c.W.ChainID)
			}
			if !valid {
				st.label("base_tx_not_valid", 1)
				// keep replicas in lockstep with an empty block (also discards the mempool view)
				if err := lockstep(c, sb, nil, nil); err != nil {
					if err == errStopCase {
						break
					}
					rt.Fatalf("C03: %v", err)
				}
				continue
			}
			mut := cloneTrx(tx0)
			what := ""
			switch unif(rt, 7, "mutKind") {
			case 0, 1, 2:
				what, _ = mutateTrx(rt, mut)
			case 3: // signature bytes
				i := unif(rt, 65, "sigAt")
				mut.Sig[i] ^= byte(1 << uint(unif(rt, 8, "sigBit")))
				what = "sigbyte"
			case 4: // malleated signature (r, n-s, v^1): same key, same fields
				s := new(big.Int).SetBytes(mut.Sig[32:64])
				s.Sub(secpN, s)
				sb32 := s.FillBytes(make([]byte, 32))
				copy(mut.Sig[32:64], sb32)
				mut.Sig[64] ^= 1
				what = "malleated"
			case 5: // claimed sender = another funded actor, or signed by another key
				other := pick(rt, src.all, "otherActor")
				if pct(rt, 50, "claimOrSign") {
					mut.From = other.Addr
					mut.Nonce = c.W.acct(other.Addr).Nonce
					what = "claimed_sender"
				} else {
					signTrx(actorNamed("mallory"), mut, c.W.ChainID)
					what = "other_key"
				}
			case 6: // signed (by the right key) for another chain
				signer := src.actorByAddr(mut.From)
				if signer != nil {
					signTrx(signer, mut, pick(rt, chainIDs[1:], "otherChain"))
				}
				what = "other_chain"
			}
			raw1 := encodeTrx(mut)
			d1 := &ctypes.Trx{}
			decodes := d1.Decode(raw1) == nil
			mustFail := !decodes || execTuple(d1) != execTuple(tx0) || !sigRecovers(d1, c.W.ChainID)
			rc, _ := sb.CheckTx(raw1)
			passesOtherChecks := decodes && rc.Code == 0
			hist := &History{Property: "C03", Genesis: c.Hist.Genesis, Blocks: append(append([]*Block{}, c.Hist.Blocks...), &Block{Txs: [][]byte{raw1}, Notes: []string{"mutant(" + what + ") of: " + note}})}
			verr := lockstep(c, sb, raw1, func(res TxResult) (bool, error) {
				if res.Code == 0 && mustFail {
					return false, violationf("mutant (%s) of a signed tx was accepted although %s; original: %s mutant: %s", what, whyMustFail(decodes, d1, tx0, c.W.ChainID), execTuple(tx0), execTuple(d1))
				}
				return res.Code == 0, nil
			})
			st.label("mutant:"+what, 1)
			if mustFail {
				st.label("mutants_that_must_fail", 1)
			}
			if passesOtherChecks && mustFail {
				nontrivial++
				st.label("nontrivial_mutant:"+kindOfMut(what), 1)
				shape += what + ";"
			}
			if verr == errStopCase {
				break
			}
			if verr != nil {
				dumpFailure(hist, verr.Error())
				rt.Fatalf("C03: %v", verr)
			}
		}
		st.caseDone(nontrivial > 0, fmt.Sprintf("%d|%s", len(c.Hist.Genesis.Validators), shape), func() interface{} { return c.sample(3) })
	})
}

func kindOfMut(what string) string {
	if len(what) > 24 {
		return what[:24]
	}
	return what
}

func whyMustFail(decodes bool, d1, tx0 *ctypes.Trx, chain string) string {
	if !decodes {
		return "it does not decode"
	}
	if execTuple(d1) != execTuple(tx0) && !sigRecovers(d1, chain) {
		return "its executed fields differ from the signed ones and the signature does not recover its sender over the delivered fields"
	}
	if !sigRecovers(d1, chain) {
		return "the signature does not recover the claimed sender for this chain over the delivered fields"
	}
	return "its executed fields differ from the signed ones"
}

var errStopCase = fmt.Errorf("case ends here")

// lockstep executes one block on the primary (with tx, if any) and on the twin (with tx only if the
// primary legitimately accepted it) and compares the semantic digests.
func lockstep(c *Case, sb *Sim, tx []byte, judge func(TxResult) (bool, error)) error {
	b := &Block{}
	if tx != nil {
		b.Txs = [][]byte{tx}
	}
	br, perr := c.Sim.RunBlock(b, nil)
	if perr != nil {
		return nil // C09's business
	}
	accepted := false
	if tx != nil {
		var err error
		accepted, err = judge(br.Txs[0])
		if err != nil {
			return err
		}
		// keep the model's nonce bookkeeping right for the next base tx
		c.W.BeginBlock(b)
		c.W.ApplyTx(tx, br.Txs[0])
		c.W.EndBlock(br)
		c.W.Commit()
	} else {
		c.W.BeginBlock(b)
		c.W.EndBlock(br)
		c.W.Commit()
	}
	if err := c.W.TM.ApplyEndBlock(br.Height, br.ValUpdates); err != nil {
		return errStopCase
	}
	bb := &Block{}
	if accepted {
		bb.Txs = [][]byte{tx}
	}
	if _, perr := sb.RunBlock(bb, nil); perr != nil {
		return nil
	}
	da, p1 := semanticDigest(c.Sim)
	db, p2 := semanticDigest(sb)
	if p1 != nil || p2 != nil {
		return nil
	}
	if df := diffLines(da, db); df != "" {
		return violationf("a rejected mutant changed state (A = replica that got the mutant):%s", df)
	}
	return nil
}

func replayC03(h *History) error {
	n := len(h.Blocks)
	if n == 0 {
		return nil
	}
	pre := &History{Genesis: h.Genesis, Blocks: h.Blocks[:n-1]}
	sa, _, err := runReplica(pre, nil, func(s *Sim, bi int, b *Block, br *BlockResult) error {
		// no accepted tx of the history may carry a signature that does not recover its sender
		for i, raw := range b.Txs {
			d := &ctypes.Trx{}
			if br.Txs[i].Code == 0 && (d.Decode(raw) != nil || !sigRecovers(d, h.Genesis.ChainID)) {
				return violationf("block %d tx %d was accepted although its signature does not recover the sender for chain %q", bi+1, i, h.Genesis.ChainID)
			}
		}
		return nil
	})
	defer sa.Close(true)
	if err != nil {
		return err
	}
	sb, _, err := runReplica(pre, nil, nil)
	defer sb.Close(true)
	if err != nil {
		return err
	}
	last := h.Blocks[n-1]
	br, perr := sa.RunBlock(last, nil)
	if perr != nil {
		return perr
	}
	if _, perr := sb.RunBlock(&Block{}, nil); perr != nil {
		return perr
	}
	for i, raw := range last.Txs {
		d := &ctypes.Trx{}
		if d.Decode(raw) != nil || !sigRecovers(d, h.Genesis.ChainID) {
			if br.Txs[i].Code == 0 {
				return violationf("tx %d of the last block is accepted although its signature does not recover its sender", i)
			}
		} else if br.Txs[i].Code == 0 {
			return violationf("tx %d of the last block (a mutant of a signed tx, see notes) is accepted", i)
		}
	}
	da, _ := semanticDigest(sa)
	db, _ := semanticDigest(sb)
	if df := diffLines(da, db); df != "" {
		return violationf("a rejected mutant changed state:%s", df)
	}
	return nil
}

var _ = ethcrypto.Keccak256
