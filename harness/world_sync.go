//go:build verif

package harness

import (
	"bytes"
	"encoding/base64"
	"encoding/json"
	"fmt"
	"strconv"
	"strings"

	"github.com/holiman/uint256"
)

// flexInt accepts JSON numbers and decimal strings (tendermint JSON writes 64-bit ints as strings).
type flexInt int64

func (f *flexInt) UnmarshalJSON(b []byte) error {
	s := strings.Trim(string(b), `"`)
	if s == "" || s == "null" {
		*f = 0
		return nil
	}
	v, err := strconv.ParseInt(s, 10, 64)
	if err != nil {
		return err
	}
	*f = flexInt(v)
	return nil
}

type qVoter struct {
	Address string  `json:"address"`
	Power   flexInt `json:"power"`
	Choice  flexInt `json:"choice"`
}

type qOption struct {
	Option string  `json:"option"` // base64
	Votes  flexInt `json:"votes"`
}

type qProposal struct {
	Status   string `json:"status"`
	Proposal struct {
		Header struct {
			TxHash   string             `json:"txHash"`
			Start    flexInt            `json:"startVotingHeight"`
			End      flexInt            `json:"endVotingHeight"`
			Apply    flexInt            `json:"applyingHeight"`
			Total    flexInt            `json:"totalVotingPower"`
			Majority flexInt            `json:"majorityPower"`
			Votes    map[string]*qVoter `json:"votes"`
			OptType  flexInt            `json:"optType"`
		} `json:"header"`
		Options []*qOption `json:"options"`
		Major   *qOption   `json:"majorOption"`
	} `json:"proposal"`
}

type qStake struct {
	Owner  string  `json:"owner"`
	To     string  `json:"to"`
	TxHash string  `json:"txhash"`
	Start  flexInt `json:"startHeight"`
	Refund flexInt `json:"refundHeight"`
	Power  flexInt `json:"power"`
}

type qDelegatee struct {
	Address string    `json:"address"`
	PubKey  string    `json:"pubKey"`
	Self    flexInt   `json:"selfPower"`
	Total   flexInt   `json:"totalPower"`
	Stakes  []*qStake `json:"stakes"`
}

type qAccount struct {
	Address string  `json:"address"`
	Name    string  `json:"name"`
	Nonce   flexInt `json:"nonce"`
	Balance string  `json:"balance"`
	Code    string  `json:"code"`
	DocURL  string  `json:"docURL"`
}

type qReward struct {
	Address   string  `json:"address"`
	Issued    string  `json:"issued"`
	Withdrawn string  `json:"withdrawn"`
	Slashed   string  `json:"slashed"`
	Cumulated string  `json:"cumulated"`
	Height    flexInt `json:"height"`
}

func queryJSON(s *Sim, path string, data []byte, h int64, into interface{}) (uint32, error) {
	r, perr := s.Query(path, data, h)
	if perr != nil {
		return 0, perr
	}
	if r.Code != 0 {
		return r.Code, nil
	}
	if err := json.Unmarshal(r.Value, into); err != nil {
		return 0, fmt.Errorf("query %s: cannot parse %q: %v", path, r.Value, err)
	}
	return 0, nil
}

// SyncAfterCommit reads back from the primary replica what the design says is read back
// (proposal snapshots; which candidate parameter set became active) and checks it.
func (w *World) SyncAfterCommit(s *Sim) {
	h := w.H
	for _, pr := range w.newProposals {
		var q qProposal
		code, err := queryJSON(s, "proposal", pr.TxHash, 0, &q)
		if err != nil || code != 0 {
			w.fail("C15", "accepted proposal %x is not returned by the proposal query (code=%d err=%v)", pr.TxHash[:6], code, err)
			pr.Voters = map[string]*MVoter{}
			continue
		}
		pr.Voters = map[string]*MVoter{}
		var snap []SetEntry
		sum := int64(0)
		for k, v := range q.Proposal.Header.Votes {
			addr := unhx(strings.ToLower(k))
			pr.Voters[ak(addr)] = &MVoter{Power: int64(v.Power), Choice: -1}
			snap = append(snap, SetEntry{Addr: addr, Power: int64(v.Power)})
			sum += int64(v.Power)
		}
		pr.Total = int64(q.Proposal.Header.Total)
		pr.Majority = int64(q.Proposal.Header.Majority)
		if pr.Total != sum {
			w.fail("C15", "proposal %x: recorded total power %d != sum of recorded voters %d", pr.TxHash[:6], pr.Total, sum)
		}
		if pr.Majority != (pr.Total*2)/3 {
			w.fail("C15", "proposal %x: majority threshold %d is not floor(2*%d/3)", pr.TxHash[:6], pr.Majority, pr.Total)
		}
		if int64(q.Proposal.Header.Start) != pr.Start || int64(q.Proposal.Header.End) != pr.End || int64(q.Proposal.Header.Apply) != pr.Apply {
			w.fail("C15", "proposal %x: recorded heights differ from the submitted ones", pr.TxHash[:6])
		}
		// snapshot must be one of the validator sets of the engine's lag window at submission
		matched := ""
		for _, hh := range []int64{h - 1, h, h + 1, h + 2} {
			if sameSet(snap, setEntries(w.TM.At(hh))) {
				matched = fmt.Sprintf("set(%d)", hh)
				break
			}
		}
		if matched == "" {
			w.fail("C15", "proposal %x submitted at %d: recorded voters %s equal none of the validator sets in flight %s",
				pr.TxHash[:6], h, fmtSet(snap), w.fmtWindow(h))
		}
		if _, ok := pr.Voters[ak(pr.proposer)]; !ok {
			w.fail("C15", "proposal %x accepted from %x which is not among its recorded validators", pr.TxHash[:6], pr.proposer)
		}
		for _, ev := range pr.earlyVotes {
			v, ok := pr.Voters[ak(ev.From)]
			if !ok {
				w.fail("C15", "vote by %x accepted, not in the proposal's recorded voters", ev.From)
				continue
			}
			if v.Choice >= 0 {
				pr.Votes[v.Choice] -= v.Power
			}
			v.Choice = ev.Choice
			pr.Votes[v.Choice] += v.Power
		}
		pr.earlyVotes = nil
	}
	w.newProposals = nil

	if len(w.pendingCandidates) > 0 || w.pendingAmbiguous || w.pendingUnparsable {
		var got Params
		code, err := queryJSON(s, "gov_params", nil, 0, &got)
		if err != nil || code != 0 {
			w.fail("C15", "gov_params query failed after applying a proposal (code=%d err=%v)", code, err)
			return
		}
		okc := false
		for _, c := range w.pendingCandidates {
			if c.normalized() == got.normalized() {
				okc = true
			}
		}
		if !okc && !w.pendingAmbiguous && !w.pendingUnparsable {
			w.fail("C15", "parameters after applying = %s; expected one of %d merge results, e.g. %s", got.JSON(), len(w.pendingCandidates), w.pendingCandidates[0].JSON())
		}
		if got.normalized() != w.Params.normalized() {
			w.Feat["params_changed"]++
		}
		w.Params = got.clone()
		w.pendingCandidates, w.pendingAmbiguous, w.pendingUnparsable = nil, false, false
	}
}

func sameSet(a, b []SetEntry) bool {
	if len(a) != len(b) {
		return false
	}
	m := map[string]int64{}
	for _, e := range a {
		m[ak(e.Addr)] = e.Power
	}
	for _, e := range b {
		if p, ok := m[ak(e.Addr)]; !ok || p != e.Power {
			return false
		}
	}
	return true
}

func fmtSet(s []SetEntry) string {
	m := map[string]int64{}
	for _, e := range s {
		m[ak(e.Addr)[:8]] = e.Power
	}
	out := "{"
	for _, k := range sortedKeys(m) {
		out += fmt.Sprintf("%s:%d ", k, m[k])
	}
	return out + "}"
}

func (w *World) fmtWindow(h int64) string {
	out := ""
	for _, hh := range []int64{h - 1, h, h + 1, h + 2} {
		out += fmt.Sprintf("set(%d)=%s ", hh, fmtSet(setEntries(w.TM.At(hh))))
	}
	return out
}

func decodeOption(b64 string) []byte {
	bz, err := base64.StdEncoding.DecodeString(b64)
	if err != nil {
		return nil
	}
	return bz
}

var _ = bytes.Equal
var _ = uint256.NewInt
