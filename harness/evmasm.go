//go:build verif

package harness

import (
	"encoding/binary"
	"fmt"
	"math/big"
)

// ---------------------------------------------------------------------------
// A tiny EVM assembler and a small program IR for the C17 differential.
// Calldata convention of generated contracts: word0 = selector/mode (small int),
// word1..word3 = arguments (addresses or numbers) chosen by the tx generator at call time.
// ---------------------------------------------------------------------------

type easm struct {
	code   []byte
	labels map[string]int
	fix    []fixup
	nlabel int
}

type fixup struct {
	at    int
	label string
}

func newAsm() *easm { return &easm{labels: map[string]int{}} }

func (a *easm) op(b ...byte) *easm { a.code = append(a.code, b...); return a }

func (a *easm) push(v uint64) *easm {
	if v == 0 {
		return a.op(0x60, 0x00)
	}
	var buf [8]byte
	binary.BigEndian.PutUint64(buf[:], v)
	i := 0
	for buf[i] == 0 {
		i++
	}
	a.op(byte(0x60 + (8 - i) - 1))
	return a.op(buf[i:]...)
}

func (a *easm) pushBytes(b []byte) *easm {
	if len(b) == 0 || len(b) > 32 {
		panic("pushBytes")
	}
	a.op(byte(0x60 + len(b) - 1))
	return a.op(b...)
}

func (a *easm) pushBig(v *big.Int) *easm {
	b := v.Bytes()
	if len(b) == 0 {
		return a.push(0)
	}
	return a.pushBytes(b)
}

func (a *easm) newLabel() string { a.nlabel++; return fmt.Sprintf("L%d", a.nlabel) }

func (a *easm) pushLabel(l string) *easm {
	a.op(0x61, 0, 0) // PUSH2 placeholder
	a.fix = append(a.fix, fixup{at: len(a.code) - 2, label: l})
	return a
}

func (a *easm) label(l string) *easm {
	a.labels[l] = len(a.code)
	return a.op(0x5b) // JUMPDEST
}

func (a *easm) bytes() []byte {
	for _, f := range a.fix {
		pos, ok := a.labels[f.label]
		if !ok {
			panic("undefined label " + f.label)
		}
		a.code[f.at] = byte(pos >> 8)
		a.code[f.at+1] = byte(pos)
	}
	return a.code
}

// opcodes used below
const (
	opSTOP, opADD, opMUL, opSUB, opDIV            = 0x00, 0x01, 0x02, 0x03, 0x04
	opLT, opGT, opEQ, opISZERO, opAND             = 0x10, 0x11, 0x14, 0x15, 0x16
	opADDRESS, opBALANCE, opORIGIN, opCALLER      = 0x30, 0x31, 0x32, 0x33
	opCALLVALUE, opCALLDATALOAD, opCALLDATASIZE   = 0x34, 0x35, 0x36
	opCALLDATACOPY, opCODESIZE, opCODECOPY        = 0x37, 0x38, 0x39
	opGASPRICE, opEXTCODESIZE, opRETURNDATASIZE   = 0x3a, 0x3b, 0x3d
	opRETURNDATACOPY, opEXTCODEHASH               = 0x3e, 0x3f
	opCOINBASE, opTIMESTAMP, opNUMBER, opGASLIMIT = 0x41, 0x42, 0x43, 0x45
	opCHAINID, opSELFBALANCE                      = 0x46, 0x47
	opPOP, opMLOAD, opMSTORE, opSLOAD, opSSTORE   = 0x50, 0x51, 0x52, 0x54, 0x55
	opJUMP, opJUMPI, opGAS                        = 0x56, 0x57, 0x5a
	opDUP1, opSWAP1                               = 0x80, 0x90
	opLOG0                                        = 0xa0
	opCREATE, opCALL, opRETURN, opDELEGATECALL    = 0xf0, 0xf1, 0xf3, 0xf4
	opCREATE2, opSTATICCALL, opREVERT, opINVALID  = 0xf5, 0xfa, 0xfd, 0xfe
	opSELFDESTRUCT                                = 0xff
)

// ---- IR ---------------------------------------------------------------------

// Expr kinds: "const" (V), "arg" (I: calldata word index), "sload" (I), "callvalue", "selfbalance",
// "balance" (A), "caller", "address", "add" (A,B), "number", "timestamp", "coinbase", "gasprice",
// "extcodesize" (A), "origin".
type Expr struct {
	K string `json:"k"`
	V uint64 `json:"v,omitempty"`
	I int    `json:"i,omitempty"`
	A *Expr  `json:"a,omitempty"`
	B *Expr  `json:"b,omitempty"`
}

// Stmt kinds: "sstore" (I slot, E), "log" (N topics, E data), "call"/"staticcall"/"delegatecall"
// (Target, Value, GasCap 0=all, OnFail "ignore"|"revert"|"store", Slot, Bump: add 1 to word0 of the forwarded calldata),
// "create" (Value, Child template), "selfdestruct" (Target), "revert", "return" (E), "invalid", "stop".
// Cond >= 0: executed only when calldata word0 == Cond.
type Stmt struct {
	K      string `json:"k"`
	Cond   int    `json:"cond"`
	I      int    `json:"i,omitempty"`
	N      int    `json:"n,omitempty"`
	E      *Expr  `json:"e,omitempty"`
	Target *Expr  `json:"target,omitempty"`
	Value  *Expr  `json:"value,omitempty"`
	GasCap uint64 `json:"gascap,omitempty"`
	OnFail string `json:"onfail,omitempty"`
	Child  string `json:"child,omitempty"`
	Bump   bool   `json:"bump,omitempty"`
}

type Program struct {
	Stmts []*Stmt `json:"stmts"`
}

func (a *easm) expr(e *Expr) {
	switch e.K {
	case "const":
		a.push(e.V)
	case "arg":
		a.push(uint64(32 * e.I)).op(opCALLDATALOAD)
	case "sload":
		a.push(uint64(e.I)).op(opSLOAD)
	case "callvalue":
		a.op(opCALLVALUE)
	case "selfbalance":
		a.op(opSELFBALANCE)
	case "balance":
		a.expr(e.A)
		a.op(opBALANCE)
	case "extcodesize":
		a.expr(e.A)
		a.op(opEXTCODESIZE)
	case "caller":
		a.op(opCALLER)
	case "origin":
		a.op(opORIGIN)
	case "address":
		a.op(opADDRESS)
	case "number":
		a.op(opNUMBER)
	case "timestamp":
		a.op(opTIMESTAMP)
	case "coinbase":
		a.op(opCOINBASE)
	case "gasprice":
		a.op(opGASPRICE)
	case "gaslimit":
		a.op(opGASLIMIT)
	case "chainid":
		a.op(opCHAINID)
	case "basefee":
		a.op(0x48)
	case "difficulty":
		a.op(0x44)
	case "blockhash": // of the block e.I (0: 1) below the current one
		a.push(uint64(max(e.I, 1))).op(opNUMBER, opSUB, 0x40)
	case "gasleft":
		a.op(opGAS)
	case "codesize":
		a.op(opCODESIZE)
	case "calldatasize":
		a.op(opCALLDATASIZE)
	case "returndatasize":
		a.op(opRETURNDATASIZE)
	case "add":
		a.expr(e.A)
		a.expr(e.B)
		a.op(opADD)
	case "half":
		a.push(2)
		a.expr(e.A)
		a.op(opDIV)
	default:
		panic("unknown expr " + e.K)
	}
}

var childTemplates = map[string][]byte{
	"sink":     sinkRuntime,
	"reverter": reverterRuntime,
	// runtime that self-destructs to its caller: CALLER SELFDESTRUCT
	"suicider": {opCALLER, opSELFDESTRUCT},
	// runtime returning SELFBALANCE
	"balret": {opSELFBALANCE, 0x60, 0x00, opMSTORE, 0x60, 0x20, 0x60, 0x00, opRETURN},
}

type abiTpl struct {
	sel   []byte
	words []*big.Int
	size  int
}

func bigPow2(n uint) *big.Int { return new(big.Int).Lsh(big.NewInt(1), n) }

// what contracts hand back on REVERT/RETURN: compiler-shaped Error(string)/Panic(uint256) data and broken variants of it
var abiDataTemplates = []abiTpl{
	{sel: []byte{0x08, 0xc3, 0x79, 0xa0}, words: []*big.Int{big.NewInt(32), big.NewInt(5), new(big.Int).Lsh(big.NewInt(0x68656c6c6f), 216)}, size: 100}, // Error("hello")
	{sel: []byte{0x08, 0xc3, 0x79, 0xa0}, words: []*big.Int{big.NewInt(32), big.NewInt(255)}, size: 68},                                                 // length beyond the data
	{sel: []byte{0x08, 0xc3, 0x79, 0xa0}, words: []*big.Int{big.NewInt(32), new(big.Int).Sub(bigPow2(256), big.NewInt(1))}, size: 68},                   // length 2^256-1
	{sel: []byte{0x08, 0xc3, 0x79, 0xa0}, words: []*big.Int{bigPow2(255), big.NewInt(1)}, size: 100},                                                    // offset 2^255
	{sel: []byte{0x08, 0xc3, 0x79, 0xa0}, words: nil, size: 4},                                                                                          // selector only
	{sel: []byte{0x08, 0xc3, 0x79, 0xa0}, words: []*big.Int{big.NewInt(32)}, size: 36},                                                                  // offset only
	{sel: []byte{0x4e, 0x48, 0x7b, 0x71}, words: []*big.Int{big.NewInt(0x11)}, size: 36},                                                                // Panic(0x11)
	{sel: []byte{0x08, 0xc3, 0x79, 0xa0}, words: []*big.Int{big.NewInt(32), big.NewInt(1 << 31), big.NewInt(7)}, size: 100},                             // 2 GiB string
	{sel: []byte{0x08, 0xc3, 0x79, 0xa0}, words: []*big.Int{big.NewInt(64), big.NewInt(0), big.NewInt(40)}, size: 100},                                  // offset past the length word
}

func (a *easm) stmt(s *Stmt) {
	skip := ""
	if s.Cond >= 0 {
		// if calldata word0 != Cond jump over
		skip = a.newLabel()
		a.push(uint64(s.Cond)).push(0).op(opCALLDATALOAD, opEQ, opISZERO)
		a.pushLabel(skip).op(opJUMPI)
	}
	switch s.K {
	case "sstore":
		a.expr(s.E)
		a.push(uint64(s.I)).op(opSSTORE)
	case "log":
		a.expr(s.E)
		a.push(0).op(opMSTORE)
		for i := 0; i < s.N; i++ {
			a.push(uint64(0xA0 + i))
		}
		a.push(32).push(0).op(byte(opLOG0 + s.N))
	case "call", "staticcall", "delegatecall":
		// forward own calldata (optionally with word0+1)
		a.op(opCALLDATASIZE).push(0).push(0).op(opCALLDATACOPY)
		if s.Bump {
			a.push(0).op(opCALLDATALOAD).push(1).op(opADD).push(0).op(opMSTORE)
		}
		a.push(0).push(0)            // retSize retOffset
		a.op(opCALLDATASIZE).push(0) // argsSize argsOffset
		if s.K == "call" {
			a.expr(s.Value)
		}
		a.expr(s.Target)
		if s.GasCap == 0 {
			a.op(opGAS)
		} else {
			a.push(s.GasCap)
		}
		switch s.K {
		case "call":
			a.op(opCALL)
		case "staticcall":
			a.op(opSTATICCALL)
		case "delegatecall":
			a.op(opDELEGATECALL)
		}
		a.onResult(s)
	case "create":
		init := initCodeFor(childTemplates[s.Child])
		// store init code in memory word-wise (init <= 32 bytes fits one PUSH32 left-aligned)
		if len(init) > 32 {
			panic("child init too long")
		}
		padded := make([]byte, 32)
		copy(padded, init)
		a.pushBytes(padded).push(0).op(opMSTORE)
		a.push(uint64(len(init))).push(0)
		a.expr(s.Value)
		a.op(opCREATE)
		// result: address or 0
		a.onResult(s)
	case "selfdestruct":
		a.expr(s.Target)
		a.op(opSELFDESTRUCT)
	case "revert":
		a.push(0).push(0).op(opREVERT)
	case "revertdata", "returndata":
		// ABI-looking (honest and hostile) data: selector | offset word | length word | payload word
		tpl := abiDataTemplates[s.N%len(abiDataTemplates)]
		a.pushBytes(tpl.sel).push(224).op(0x1b /*SHL*/).push(0).op(opMSTORE)
		for i, w := range tpl.words {
			a.pushBig(w).push(uint64(4 + 32*i)).op(opMSTORE)
		}
		a.push(uint64(tpl.size)).push(0)
		if s.K == "revertdata" {
			a.op(opREVERT)
		} else {
			a.op(opRETURN)
		}
	case "return":
		a.expr(s.E)
		a.push(0).op(opMSTORE).push(32).push(0).op(opRETURN)
	case "invalid":
		a.op(opINVALID)
	case "stop":
		a.op(opSTOP)
	default:
		panic("unknown stmt " + s.K)
	}
	if skip != "" {
		a.label(skip)
	}
}

// onResult consumes the success flag / created address left on the stack.
func (a *easm) onResult(s *Stmt) {
	switch s.OnFail {
	case "revert":
		ok := a.newLabel()
		a.pushLabel(ok).op(opJUMPI)
		a.push(0).push(0).op(opREVERT)
		a.label(ok)
	case "store":
		a.push(uint64(s.I)).op(opSSTORE)
	default:
		a.op(opPOP)
	}
}

func (p *Program) runtime() []byte {
	a := newAsm()
	for _, s := range p.Stmts {
		a.stmt(s)
	}
	a.op(opSTOP)
	return a.bytes()
}

// deployCode returns init code that returns the program's runtime (any length).
func (p *Program) deployCode() []byte {
	rt := p.runtime()
	// PUSH2 len DUP1 PUSH2 off PUSH1 0 CODECOPY PUSH1 0 RETURN
	init := []byte{0x61, byte(len(rt) >> 8), byte(len(rt)), 0x80, 0x61, 0, 0x0d, 0x60, 0x00, 0x39, 0x60, 0x00, 0xf3}
	return append(init, rt...)
}
