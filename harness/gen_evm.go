//go:build verif

package harness

import (
	"fmt"

	"github.com/holiman/uint256"
	ctypes "github.com/rigochain/rigo-go/ctrlers/types"
	"pgregory.net/rapid"
)

func genExpr(t *rapid.T, depth int) *Expr {
	ks := []string{"const", "const", "arg", "arg", "sload", "callvalue", "selfbalance", "balance", "caller", "address", "number", "timestamp", "coinbase", "gasprice", "extcodesize", "origin",
		"gaslimit", "chainid", "basefee", "difficulty", "blockhash", "gasleft", "codesize", "calldatasize", "returndatasize"}
	if depth < 2 {
		ks = append(ks, "add", "half")
	}
	e := &Expr{K: pick(t, ks, "exprKind")}
	switch e.K {
	case "const":
		e.V = pick(t, []uint64{0, 1, 2, 7, 1000, 1 << 32, 1_000_000_000_000_000_000}, "constV")
	case "arg":
		e.I = 1 + unif(t, 3, "argI")
	case "sload":
		e.I = unif(t, 4, "slot")
	case "blockhash":
		e.I = pick(t, []int{1, 1, 2, 3, 6, 257}, "lookBack")
	case "balance", "extcodesize":
		e.A = genAddrExpr(t)
	case "add":
		e.A, e.B = genExpr(t, depth+1), genExpr(t, depth+1)
	case "half":
		e.A = genExpr(t, depth+1)
	}
	return e
}

// genAddrExpr: an expression that evaluates to an address (an argument word, the caller or self).
func genAddrExpr(t *rapid.T) *Expr {
	switch unif(t, 6, "addrExpr") {
	case 0:
		return &Expr{K: "caller"}
	case 1:
		return &Expr{K: "address"}
	case 2:
		return &Expr{K: "origin"}
	default:
		return &Expr{K: "arg", I: 1 + unif(t, 3, "addrArg")}
	}
}

func genValueExpr(t *rapid.T) *Expr {
	switch unif(t, 7, "valueExpr") {
	case 0, 1:
		return &Expr{K: "const", V: 0}
	case 2:
		return &Expr{K: "const", V: uint64(1 + unif(t, 1000, "valueConst"))}
	case 3:
		return &Expr{K: "callvalue"}
	case 4:
		return &Expr{K: "half", A: &Expr{K: "callvalue"}}
	case 5:
		return &Expr{K: "selfbalance"}
	default:
		return &Expr{K: "half", A: &Expr{K: "selfbalance"}}
	}
}

// genPattern: statement groups around the native<->EVM synchronisation (an inner frame that fails and is
// tolerated, followed by more activity on the same addresses).
func genPattern(t *rapid.T) []*Stmt {
	tgt := genAddrExpr(t)
	cond := -1
	if pct(t, 40, "patCond") {
		cond = unif(t, 4, "patCondV")
	}
	first := &Stmt{K: "call", Cond: cond, Target: tgt, Value: genValueExpr(t), OnFail: pick(t, []string{"ignore", "store"}, "patOnfail"), I: 4 + unif(t, 4, "patSlot")}
	switch unif(t, 3, "patFailHow") {
	case 0:
		first.GasCap = pick(t, []uint64{1, 700, 2300}, "patGas") // starves a callee that does real work
	case 1:
		first.Bump = true // another selector: may take a reverting branch of the callee
	default:
		first.GasCap, first.Bump = 2300, true
	}
	second := &Stmt{K: pick(t, []string{"call", "call", "call", "selfdestruct"}, "patSecond"), Cond: cond, Target: tgt, Value: genValueExpr(t), OnFail: "store", I: 4 + unif(t, 4, "patSlot2")}
	if second.K == "selfdestruct" && second.Cond < 0 {
		second.Cond = unif(t, 4, "patSdCond")
	}
	switch unif(t, 7, "patKind") {
	case 6: // re-entrant: mode c calls itself in mode c+1, which calls itself in mode c+2 - that frame self-destructs -
		// and then mode c+1 fails: the self-destruct (of a contract the outer frames have long touched) is rolled back
		c := unif(t, 2, "reC")
		self := &Expr{K: "address"}
		heir := pick(t, []*Expr{{K: "origin"}, {K: "arg", I: 2}, {K: "arg", I: 3}}, "reHeir")
		return []*Stmt{
			{K: "call", Cond: c, Target: self, Value: genValueExpr(t), OnFail: pick(t, []string{"ignore", "store"}, "reOnfail"), I: 4 + unif(t, 4, "reSlot"), Bump: true},
			{K: "call", Cond: c + 1, Target: self, Value: &Expr{K: "const", V: 0}, OnFail: "ignore", Bump: true},
			{K: "selfdestruct", Cond: c + 2, Target: heir},
			{K: pick(t, []string{"revert", "invalid", "stop"}, "reEnd"), Cond: c + 1},
		}
	case 5: // what the contract is told about the block it runs in: recorded, logged and returned
		ctx := func(label string) *Expr {
			e := &Expr{K: pick(t, []string{"blockhash", "blockhash", "blockhash", "number", "timestamp", "coinbase", "gaslimit", "difficulty", "basefee", "chainid"}, label)}
			if e.K == "blockhash" {
				e.I = pick(t, []int{1, 2, 3, 4, 6, 10, 256, 257}, label+"Back")
			}
			return e
		}
		return []*Stmt{
			{K: "sstore", Cond: -1, I: unif(t, 4, "ctxSlot"), E: ctx("ctx1")},
			{K: "log", Cond: -1, N: 1, E: ctx("ctx2")},
			{K: "return", Cond: unif(t, 4, "ctxRetCond"), E: ctx("ctx3")},
		}
	case 4: // probes: what does the contract see of an account? (also what read-only calls are made for)
		return []*Stmt{
			{K: "return", Cond: unif(t, 2, "probeCond"), E: &Expr{K: "balance", A: &Expr{K: "arg", I: 1}}},
			{K: "return", Cond: 2 + unif(t, 2, "probeCond2"), E: &Expr{K: "add", A: &Expr{K: "balance", A: &Expr{K: "arg", I: 2}}, B: &Expr{K: "balance", A: &Expr{K: "caller"}}}},
		}
	case 0: // callee side: pay somebody, then fail
		return []*Stmt{
			{K: "call", Cond: -1, Target: &Expr{K: "arg", I: 2}, Value: &Expr{K: "half", A: &Expr{K: "selfbalance"}}, OnFail: "ignore"},
			{K: pick(t, []string{"revert", "invalid"}, "patEnd"), Cond: unif(t, 4, "patEndCond")},
		}
	case 1: // caller side: failing call to arg1 (which may pay arg2 inside), then pay arg2 directly
		return []*Stmt{first, {K: "call", Cond: cond, Target: &Expr{K: "arg", I: 2}, Value: genValueExpr(t), OnFail: "store", I: 4 + unif(t, 4, "patSlot3")}}
	default:
		return []*Stmt{first, second}
	}
}

func genProgram(t *rapid.T) *Program {
	p := &Program{}
	if pct(t, 35, "usePattern") {
		p.Stmts = append(p.Stmts, genPattern(t)...)
	}
	n := 1 + unif(t, 6, "nStmts")
	for i := 0; i < n; i++ {
		s := &Stmt{Cond: -1}
		if pct(t, 45, "conditional") {
			s.Cond = unif(t, 4, "cond")
		}
		s.K = weighted(t, map[string]int{"sstore": 20, "log": 10, "call": 26, "staticcall": 6, "delegatecall": 6, "create": 8, "selfdestruct": 4, "revert": 4, "return": 6, "invalid": 2, "stop": 2, "revertdata": 5, "returndata": 2}, "stmtKind")
		switch s.K {
		case "sstore":
			s.I, s.E = unif(t, 4, "sslot"), genExpr(t, 0)
		case "log":
			s.N, s.E = unif(t, 4, "ntopics"), genExpr(t, 0)
		case "call", "staticcall", "delegatecall":
			s.Target = genAddrExpr(t)
			s.Value = genValueExpr(t)
			s.GasCap = pick(t, []uint64{0, 0, 0, 2300, 30000, 100000}, "gascap")
			s.OnFail = pick(t, []string{"ignore", "revert", "store", "store"}, "onfail")
			s.I = 4 + unif(t, 4, "resultSlot")
			s.Bump = pct(t, 60, "bump")
		case "create":
			s.Value = genValueExpr(t)
			s.Child = pick(t, []string{"sink", "reverter", "suicider", "balret"}, "child")
			s.OnFail = pick(t, []string{"ignore", "revert", "store"}, "createOnfail")
			s.I = 4 + unif(t, 4, "createSlot")
		case "selfdestruct":
			s.Target = genAddrExpr(t)
			if s.Cond < 0 {
				s.Cond = unif(t, 4, "sdCond") // never unconditional: the contract should live for a while
			}
		case "return":
			s.E = genExpr(t, 0)
		case "revertdata", "returndata":
			s.N = unif(t, len(abiDataTemplates), "abiTpl")
			if s.Cond < 0 {
				s.Cond = unif(t, 4, "dataCond")
			}
		case "revert", "invalid", "stop":
			if s.Cond < 0 {
				s.Cond = unif(t, 4, "endCond")
			}
		}
		p.Stmts = append(p.Stmts, s)
	}
	return p
}

func word(b []byte) []byte {
	w := make([]byte, 32)
	copy(w[32-len(b):], b)
	return w
}

// evmAddrPool: addresses a generated call may pass as arguments.
func (s *GenSource) evmAddrPool(w *World) [][]byte {
	var pool [][]byte
	for _, a := range s.all {
		pool = append(pool, a.Addr)
	}
	for _, k := range sortedKeys(w.Contracts) {
		pool = append(pool, unhx(k))
	}
	for _, k := range sortedKeys(w.Dead) {
		pool = append(pool, unhx(k))
	}
	for i := 1; i <= 4; i++ {
		pool = append(pool, word([]byte{byte(i)})[12:])
	}
	pool = append(pool, actorNamed("fresh0").Addr, actorNamed("fresh1").Addr, make([]byte, 20))
	return pool
}

func (s *GenSource) genCalldata(w *World) []byte {
	t := s.t
	pool := s.evmAddrPool(w)
	data := word([]byte{byte(unif(t, 4, "selector"))})
	var contracts [][]byte
	for _, k := range sortedKeys(w.Contracts) {
		contracts = append(contracts, unhx(k))
	}
	for i := 0; i < 3; i++ {
		if len(contracts) > 0 && pct(t, 30, "argIsContract") {
			data = append(data, word(pick(t, contracts, "argContract"))...)
		} else if pct(t, 85, "argIsAddr") {
			data = append(data, word(pick(t, pool, "argAddr"))...)
		} else {
			data = append(data, word(u256(uint64(unif(t, 5000, "argNum"))).Bytes())...)
		}
	}
	if pct(t, 8, "shortCalldata") {
		data = data[:unif(t, len(data), "cdLen")]
	}
	return data
}

// genEVMTx builds the contract-heavy operations of C17.
func (s *GenSource) genEVMTx(w *World, op string) *txSpec {
	t := s.t
	sp := &txSpec{amount: u256(0), gas: w.Params.MinTrxGas, contract: true}
	sp.from = pick(t, s.all, "from")
	sp.gas = pick(t, []uint64{1_000_000, 1_000_000, 1_000_000, 300_000, 100_000, 60_000, 25_000}, "evmGas")
	switch op {
	case "deployp":
		prog := genProgram(t)
		sp.typ = ctypes.TRX_CONTRACT
		sp.to = make([]byte, 20)
		sp.payload = &ctypes.TrxPayloadContract{Data: prog.deployCode()}
		if pct(t, 10, "codelessDeploy") {
			// a creation that succeeds and leaves no code behind: no init code at all, STOP, RETURN(0,0), a constructor
			// that self-destructs (to the sender / into itself)
			sp.payload = &ctypes.TrxPayloadContract{Data: unhx(pick(t, []string{"", "00", "60006000f3", "33ff", "30ff", "6000600055"}, "codelessInit"))}
			prog = &Program{}
		}
		if pct(t, 35, "deployValue") {
			sp.amount = u256(uint64(1 + unif(t, 100000, "deployVal")))
		}
		sp.note = fmt.Sprintf("deploy program(%d stmts: %s) by %s value=%s gas=%d", len(prog.Stmts), progSummary(prog), sp.from.Name, sp.amount.Dec(), sp.gas)
	case "callp":
		ks := sortedKeys(w.Contracts)
		sp.typ = ctypes.TRX_CONTRACT
		sp.to = unhx(pick(t, ks, "contract"))
		if ex := sortedKeys(w.Dead); len(ex) > 0 && pct(t, 12, "callExContract") {
			sp.to = unhx(pick(t, ex, "exContract"))
		}
		if pct(t, 8, "callPlainAccount") {
			sp.to = pick(t, s.all, "callEOA").Addr
		}
		sp.payload = &ctypes.TrxPayloadContract{Data: s.genCalldata(w)}
		if pct(t, 55, "callValue") {
			sp.amount = pick(t, []*uint256.Int{u256(1), u256(1000), u256(uint64(1 + unif(t, 1_000_000, "callVal"))), rigo(1), s.amountFor(w, sp.from, "callAmtKind")}, "callAmt")
		}
		sel := -1
		if cd := sp.payload.(*ctypes.TrxPayloadContract).Data; len(cd) > 0 {
			sel = int(cd[min(31, len(cd)-1)])
		}
		sp.note = fmt.Sprintf("call %x(%s) by %s sel=%d value=%s gas=%d", sp.to[:4], w.Contracts[ak(sp.to)], sp.from.Name, sel, sp.amount.Dec(), sp.gas)
	case "transferc":
		ks := sortedKeys(w.Contracts)
		sp.typ = ctypes.TRX_TRANSFER
		sp.to = unhx(pick(t, ks, "contract"))
		if ex := sortedKeys(w.Dead); len(ex) > 0 && pct(t, 25, "transferExContract") {
			sp.to = unhx(pick(t, ex, "exContract"))
		}
		sp.payload = &ctypes.TrxPayloadAssetTransfer{}
		sp.amount = pick(t, []*uint256.Int{u256(0), u256(1), u256(uint64(1 + unif(t, 1_000_000, "tcVal"))), rigo(1)}, "tcAmt")
		sp.note = fmt.Sprintf("transfer to contract %x(%s) by %s amt=%s gas=%d", sp.to[:4], w.Contracts[ak(sp.to)], sp.from.Name, sp.amount.Dec(), sp.gas)
	}
	return sp
}

func progSummary(p *Program) string {
	s := ""
	for _, st := range p.Stmts {
		s += st.K
		if st.Cond >= 0 {
			s += fmt.Sprintf("?%d", st.Cond)
		}
		s += " "
	}
	return s
}

func min(a, b int) int {
	if a < b {
		return a
	}
	return b
}
