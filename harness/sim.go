//go:build verif

package harness

import (
	"fmt"
	"os"
	"path/filepath"
	"runtime/debug"
	"sync/atomic"
	"time"

	"github.com/holiman/uint256"
	cfg "github.com/rigochain/rigo-go/cmd/config"
	"github.com/rigochain/rigo-go/genesis"
	"github.com/rigochain/rigo-go/node"
	abci "github.com/tendermint/tendermint/abci/types"
	tmjson "github.com/tendermint/tendermint/libs/json"
	"github.com/tendermint/tendermint/libs/log"
	pc "github.com/tendermint/tendermint/proto/tendermint/crypto"
	tmproto "github.com/tendermint/tendermint/proto/tendermint/types"
)

const blockTime0 = int64(1_700_000_000)

// scratchRoot is where replica data directories live (tmpfs when available).
func scratchRoot() string {
	if d := os.Getenv("VERIF_SCRATCH"); d != "" {
		return d
	}
	if st, err := os.Stat("/dev/shm"); err == nil && st.IsDir() {
		return "/dev/shm"
	}
	return os.TempDir()
}

var simCounter int64

// Sim is one replica of the application, driven directly through ABCI.
type Sim struct {
	Dir     string
	App     *node.RigoApp
	ChainID string
	H       int64 // last committed height
	AppHash []byte
	inBlock bool
	closed  bool
}

// PanicError is returned by the guarded calls when the application panicked.
type PanicError struct {
	Where string
	Val   interface{}
	Stack string
}

func (p *PanicError) Error() string { return fmt.Sprintf("panic in %s: %v", p.Where, p.Val) }

func guard(where string, fn func()) (perr *PanicError) {
	defer func() {
		if r := recover(); r != nil {
			perr = &PanicError{Where: where, Val: r, Stack: string(debug.Stack())}
		}
	}()
	fn()
	return nil
}

func newDataDir() string {
	n := atomic.AddInt64(&simCounter, 1)
	d, err := os.MkdirTemp(scratchRoot(), fmt.Sprintf("rigov-%d-%d-", os.Getpid(), n))
	if err != nil {
		panic(err)
	}
	return d
}

func openAppAt(dir string) *node.RigoApp {
	c := cfg.DefaultConfig()
	c.SetRoot(dir)
	if err := os.MkdirAll(c.DBDir(), 0o700); err != nil {
		panic(err)
	}
	app := node.NewRigoApp(c, log.NewNopLogger())
	_ = app.Start()
	return app
}

// OpenSim opens (or reopens) a replica on dir and performs the Info handshake.
func OpenSim(dir string) (s *Sim, info abci.ResponseInfo, perr *PanicError) {
	s = &Sim{Dir: dir}
	perr = guard("open", func() {
		s.App = openAppAt(dir)
		info = s.App.Info(abci.RequestInfo{})
	})
	if perr != nil {
		return s, info, perr
	}
	s.H = info.LastBlockHeight
	s.AppHash = info.LastBlockAppHash
	return s, info, nil
}

// NewSim creates a fresh replica and runs InitChain for g.
func NewSim(g *Genesis) *Sim {
	dir := newDataDir()
	s, info, perr := OpenSim(dir)
	if perr != nil {
		panic(perr)
	}
	if info.LastBlockHeight != 0 {
		panic("fresh directory reports non-zero height")
	}
	s.ChainID = g.ChainID
	s.App.InitChain(g.initChainRequest())
	return s
}

func (g *Genesis) initChainRequest() abci.RequestInitChain {
	var holders []*genesis.GenesisAssetHolder
	for _, b := range g.Balances {
		holders = append(holders, &genesis.GenesisAssetHolder{Address: actorNamed(b.Actor).Addr, Balance: u256dec(b.Balance)})
	}
	var vups []abci.ValidatorUpdate
	for _, v := range g.Validators {
		vups = append(vups, abci.ValidatorUpdate{
			PubKey: pc.PublicKey{Sum: &pc.PublicKey_Secp256K1{Secp256K1: actorNamed(v.Actor).Pub}},
			Power:  v.Power,
		})
	}
	st := genesis.GenesisAppState{AssetHolders: holders, GovParams: g.Params.toGov()}
	bz, err := tmjson.Marshal(st)
	if err != nil {
		panic(err)
	}
	return abci.RequestInitChain{ChainId: g.ChainID, Validators: vups, AppStateBytes: bz}
}

// Close stops the application, closes every DB handle and (optionally) removes the directory.
func (s *Sim) Close(remove bool) {
	if s == nil {
		return
	}
	if !s.closed && s.App != nil {
		_ = guard("close", func() { _ = s.App.VerifCloseAll() })
		s.closed = true
	}
	if remove && s.Dir != "" {
		_ = os.RemoveAll(s.Dir)
	}
}

// Restart closes the application and opens a new instance on the same directory.
func (s *Sim) Restart() (abci.ResponseInfo, *PanicError) {
	s.Close(false)
	n, info, perr := OpenSim(s.Dir)
	if perr != nil {
		return info, perr
	}
	n.ChainID = s.ChainID
	*s = *n
	return info, nil
}

func blockHeader(chainID string, h int64, proposer []byte) tmproto.Header {
	hd := tmproto.Header{
		Height:          h,
		Time:            time.Unix(blockTime0+3*h, 0).UTC(),
		ChainID:         chainID,
		ProposerAddress: proposer,
	}
	if h > 1 {
		hd.LastBlockId.Hash = pseudoBlockHash(chainID, h-1)
	}
	return hd
}

// pseudoBlockHash: the block hash Tendermint would put into the headers; a pure function of chain and height
// (the same history gives the same headers to every replica).
func pseudoBlockHash(chainID string, h int64) []byte {
	return sha([]byte(fmt.Sprintf("block-hash/%s/%d", chainID, h)))
}

func (b *Block) beginRequest(chainID string, h int64) abci.RequestBeginBlock {
	req := abci.RequestBeginBlock{Hash: pseudoBlockHash(chainID, h), Header: blockHeader(chainID, h, b.Proposer)}
	for _, v := range b.Votes {
		req.LastCommitInfo.Votes = append(req.LastCommitInfo.Votes, abci.VoteInfo{
			Validator:       abci.Validator{Address: v.Addr, Power: v.Power},
			SignedLastBlock: v.Signed,
		})
	}
	for _, e := range b.Evidence {
		req.ByzantineValidators = append(req.ByzantineValidators, abci.Evidence{
			Type:             abci.EvidenceType(e.Type),
			Validator:        abci.Validator{Address: e.Addr, Power: e.Power},
			Height:           e.Height,
			Time:             time.Unix(blockTime0+3*e.Height, 0).UTC(),
			TotalVotingPower: e.Total,
		})
	}
	return req
}

// TxResult is the part of a DeliverTx response the properties talk about.
type TxResult struct {
	Code      uint32
	Data      []byte
	GasWanted int64
	GasUsed   int64
	Log       string
	Events    []abci.Event
}

// BlockResult is the observable outcome of one block.
type BlockResult struct {
	Height      int64
	BeginEvents []abci.Event
	Txs         []TxResult
	ValUpdates  []ValUp
	EndEvents   []abci.Event
	AppHash     []byte
}

type ValUp struct {
	Pub   []byte
	Power int64
}

func (s *Sim) Begin(b *Block) (ev []abci.Event, perr *PanicError) {
	perr = guard("BeginBlock", func() {
		r := s.App.BeginBlock(b.beginRequest(s.ChainID, s.H+1))
		ev = r.Events
	})
	s.inBlock = perr == nil
	return
}

func (s *Sim) Deliver(tx []byte) (res TxResult, perr *PanicError) {
	perr = guard("DeliverTx", func() {
		r := s.App.DeliverTx(abci.RequestDeliverTx{Tx: tx})
		res = TxResult{Code: r.Code, Data: r.Data, GasWanted: r.GasWanted, GasUsed: r.GasUsed, Log: r.Log, Events: r.Events}
	})
	return
}

func (s *Sim) End() (ups []ValUp, ev []abci.Event, perr *PanicError) {
	perr = guard("EndBlock", func() {
		r := s.App.EndBlock(abci.RequestEndBlock{Height: s.H + 1})
		for _, u := range r.ValidatorUpdates {
			ups = append(ups, ValUp{Pub: u.PubKey.GetSecp256K1(), Power: u.Power})
		}
		ev = r.Events
	})
	return
}

func (s *Sim) Commit() (hash []byte, perr *PanicError) {
	perr = guard("Commit", func() {
		r := s.App.Commit()
		hash = r.Data
	})
	if perr == nil {
		s.H++
		s.AppHash = hash
		s.inBlock = false
	}
	return
}

func (s *Sim) CheckTx(tx []byte) (res abci.ResponseCheckTx, perr *PanicError) {
	perr = guard("CheckTx", func() {
		res = s.App.CheckTx(abci.RequestCheckTx{Tx: tx, Type: abci.CheckTxType_New})
	})
	return
}

func (s *Sim) Query(path string, data []byte, h int64) (res abci.ResponseQuery, perr *PanicError) {
	if path == "vm_call" {
		installFakeBlockStore()
		tip := s.H
		if s.inBlock {
			tip++
		}
		theFakeStore.setTip(tip)
	}
	perr = guard("Query:"+path, func() {
		res = s.App.Query(abci.RequestQuery{Path: path, Data: data, Height: h})
	})
	return
}

// RunBlock executes a whole block; hooks (may be nil) run at the call boundaries.
type BlockHooks struct {
	AfterBegin   func()
	BeforeTx     func(i int)
	AfterTx      func(i int, r TxResult)
	AfterEnd     func()
	BeforeCommit func()
	AfterCommit  func()
	SkipTx       func(i int) bool
}

func (s *Sim) RunBlock(b *Block, hk *BlockHooks) (*BlockResult, *PanicError) {
	br := &BlockResult{Height: s.H + 1}
	ev, perr := s.Begin(b)
	if perr != nil {
		return br, perr
	}
	br.BeginEvents = ev
	if hk != nil && hk.AfterBegin != nil {
		hk.AfterBegin()
	}
	for i, tx := range b.Txs {
		if hk != nil && hk.SkipTx != nil && hk.SkipTx(i) {
			br.Txs = append(br.Txs, TxResult{Code: 0xFFFFFFFF})
			continue
		}
		if hk != nil && hk.BeforeTx != nil {
			hk.BeforeTx(i)
		}
		r, perr := s.Deliver(tx)
		if perr != nil {
			return br, perr
		}
		br.Txs = append(br.Txs, r)
		if hk != nil && hk.AfterTx != nil {
			hk.AfterTx(i, r)
		}
	}
	ups, eev, perr := s.End()
	if perr != nil {
		return br, perr
	}
	br.ValUpdates, br.EndEvents = ups, eev
	if hk != nil && hk.AfterEnd != nil {
		hk.AfterEnd()
	}
	if hk != nil && hk.BeforeCommit != nil {
		hk.BeforeCommit()
	}
	h, perr := s.Commit()
	if perr != nil {
		return br, perr
	}
	br.AppHash = h
	if hk != nil && hk.AfterCommit != nil {
		hk.AfterCommit()
	}
	return br, nil
}

// copyDir copies a (live) data directory byte for byte: what a killed process leaves behind.
func copyDir(src, dst string) error {
	return filepath.Walk(src, func(p string, info os.FileInfo, err error) error {
		if err != nil {
			return err
		}
		rel, _ := filepath.Rel(src, p)
		target := filepath.Join(dst, rel)
		if info.IsDir() {
			return os.MkdirAll(target, 0o700)
		}
		bz, err := os.ReadFile(p)
		if err != nil {
			return err
		}
		return os.WriteFile(target, bz, 0o600)
	})
}

func balOf(v *uint256.Int) string { return v.Dec() }
