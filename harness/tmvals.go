//go:build verif

package harness

import (
	"fmt"
	"sort"

	abci "github.com/tendermint/tendermint/abci/types"
	"github.com/tendermint/tendermint/crypto/secp256k1"
	pc "github.com/tendermint/tendermint/proto/tendermint/crypto"
	tmtypes "github.com/tendermint/tendermint/types"
)

// TMVals plays the consensus engine's side of validator-set management, using
// Tendermint's own ValidatorSet code: set(1)=set(2)=genesis, and
// set(h+2) = UpdateWithChangeSet(set(h+1), EndBlock(h).ValidatorUpdates).
type TMVals struct {
	sets map[int64]*tmtypes.ValidatorSet // validators of block h
	last int64                           // highest h for which sets[h] is known
}

func newTMVals(g *Genesis) *TMVals {
	var vals []*tmtypes.Validator
	for _, v := range g.Validators {
		pk := secp256k1.PubKey(actorNamed(v.Actor).Pub)
		vals = append(vals, tmtypes.NewValidator(pk, v.Power))
	}
	vs := tmtypes.NewValidatorSet(vals)
	t := &TMVals{sets: map[int64]*tmtypes.ValidatorSet{}}
	t.sets[1] = vs
	t.sets[2] = vs.Copy()
	t.last = 2
	return t
}

func (t *TMVals) clone() *TMVals {
	n := &TMVals{sets: map[int64]*tmtypes.ValidatorSet{}, last: t.last}
	for k, v := range t.sets {
		n.sets[k] = v.Copy()
	}
	return n
}

// At returns the validator set of block h (h <= last).
func (t *TMVals) At(h int64) *tmtypes.ValidatorSet {
	if h < 1 {
		return nil
	}
	return t.sets[h]
}

type SetEntry struct {
	Addr  []byte
	Pub   []byte
	Power int64
}

func setEntries(vs *tmtypes.ValidatorSet) []SetEntry {
	if vs == nil {
		return nil
	}
	var out []SetEntry
	for _, v := range vs.Validators {
		out = append(out, SetEntry{Addr: v.Address, Pub: v.PubKey.Bytes(), Power: v.VotingPower})
	}
	sort.Slice(out, func(i, j int) bool { return string(out[i].Addr) < string(out[j].Addr) })
	return out
}

var errEmptySet = fmt.Errorf("validator set would become empty")

// ApplyEndBlock folds the updates returned at the end of block h exactly the way
// Tendermint's state.updateState does. A non-nil error (other than errEmptySet)
// means the engine would reject the update list.
func (t *TMVals) ApplyEndBlock(h int64, ups []ValUp) error {
	if h+1 != t.last {
		panic(fmt.Sprintf("TMVals: EndBlock(%d) out of order (last=%d)", h, t.last))
	}
	next := t.sets[h+1].Copy()
	if len(ups) > 0 {
		var abciUps []abci.ValidatorUpdate
		for _, u := range ups {
			abciUps = append(abciUps, abci.ValidatorUpdate{
				PubKey: pc.PublicKey{Sum: &pc.PublicKey_Secp256K1{Secp256K1: u.Pub}},
				Power:  u.Power,
			})
		}
		// validateValidatorUpdates
		for _, u := range abciUps {
			if u.Power < 0 {
				return fmt.Errorf("voting power can't be negative %v", u)
			}
			if len(u.PubKey.GetSecp256K1()) != secp256k1.PubKeySize {
				return fmt.Errorf("bad public key length %d", len(u.PubKey.GetSecp256K1()))
			}
		}
		tmUps, err := tmtypes.PB2TM.ValidatorUpdates(abciUps)
		if err != nil {
			return err
		}
		if err := next.UpdateWithChangeSet(tmUps); err != nil {
			if next.Size() > 0 && isEmptySetErr(err) {
				return errEmptySet
			}
			return err
		}
	}
	t.sets[h+2] = next
	t.last = h + 2
	delete(t.sets, h-8)
	return nil
}

func isEmptySetErr(err error) bool {
	return err != nil && (containsStr(err.Error(), "would result in empty set"))
}

func containsStr(s, sub string) bool {
	for i := 0; i+len(sub) <= len(s); i++ {
		if s[i:i+len(sub)] == sub {
			return true
		}
	}
	return false
}
