//go:build verif

package harness

import (
	"fmt"
	"time"
)

// ReplaySource feeds a recorded history (no rapid involved).
type ReplaySource struct {
	H   *History
	idx int
}

func (r *ReplaySource) Genesis() *Genesis { return r.H.Genesis }
func (r *ReplaySource) StartBlock(w *World) *Block {
	if r.idx >= len(r.H.Blocks) {
		return nil
	}
	src := r.H.Blocks[r.idx]
	r.idx++
	b := *src
	b.Txs = nil
	b.pendingTxs = src.Txs
	b.pendingNotes = src.Notes
	b.Notes = nil
	return &b
}
func (r *ReplaySource) NextTx(w *World, b *Block) ([]byte, string) {
	i := len(b.Txs)
	if i >= len(b.pendingTxs) {
		return nil, ""
	}
	note := ""
	if i < len(b.pendingNotes) {
		note = b.pendingNotes[i]
	}
	return b.pendingTxs[i], note
}
func (r *ReplaySource) EndBlock(w *World, b *Block) {}

// Case is one executed history on the primary replica.
type Case struct {
	Prop     string
	Hist     *History
	W        *World
	Sim      *Sim
	Results  []*BlockResult
	Outcomes [][]TxOutcome
	EndedBy  string // "", "empty_validator_set", "bad_validator_update", "panic"
	Panic    *PanicError
	inCommit bool
}

type PrimaryOpts struct {
	// BlockHooks returns ABCI-boundary hooks for block b (injection etc.); may be nil.
	BlockHooks func(c *Case, b *Block) *BlockHooks
	// AfterTx is called after each delivered tx on the primary.
	AfterTx func(c *Case, b *Block, i int, res TxResult, out TxOutcome)
	// AfterCommit is called after each committed block; returning an error stops the case with a violation.
	AfterCommit func(c *Case, b *Block, br *BlockResult) error
	// BeforeBlock is called before BeginBlock of each block.
	BeforeBlock func(c *Case, b *Block)
}

// ViolationError marks a property violation found by an oracle.
type ViolationError struct{ Msg string }

func (v *ViolationError) Error() string { return v.Msg }

func violationf(format string, a ...interface{}) error {
	return &ViolationError{Msg: fmt.Sprintf(format, a...)}
}

// RunPrimary drives a fresh replica from src, maintaining the model and recording the history.
// The caller owns c.Sim (must Close it).
var tmAcc = map[string]time.Duration{}

func tm(k string, t0 time.Time) { tmAcc[k] += time.Since(t0) }

func RunPrimary(prop string, src Source, o *PrimaryOpts) (*Case, error) {
	t00 := time.Now()
	g := src.Genesis()
	c := &Case{Prop: prop, Hist: &History{Property: prop, Genesis: g}, W: NewWorld(g)}
	c.Sim = NewSim(g)
	tm("newsim", t00)
	if o == nil {
		o = &PrimaryOpts{}
	}
	// every contract-path tx of every history is predicted by the reference EVM (vanilla go-ethereum over the
	// model's balances and nonces)
	c.W.EVM = NewEVMRef()
	c.W.EVM.syncIn(c.W, c.W.EVM.db)
	c.W.EVM.EndBlock(0)
	for {
		t0 := time.Now()
		b := src.StartBlock(c.W)
		tm("startblock", t0)
		if b == nil {
			return c, nil
		}
		c.Hist.Blocks = append(c.Hist.Blocks, b)
		if o.BeforeBlock != nil {
			o.BeforeBlock(c, b)
		}
		var hk *BlockHooks
		if o.BlockHooks != nil {
			hk = o.BlockHooks(c, b)
		}
		br := &BlockResult{Height: c.Sim.H + 1}
		t0 = time.Now()
		ev, perr := c.Sim.Begin(b)
		tm("begin", t0)
		if perr != nil {
			return c.panicked(perr)
		}
		br.BeginEvents = ev
		c.W.BeginBlock(b)
		if hk != nil && hk.AfterBegin != nil {
			hk.AfterBegin()
		}
		var outs []TxOutcome
		for {
			t0 = time.Now()
			raw, note := src.NextTx(c.W, b)
			tm("gentx", t0)
			if raw == nil {
				break
			}
			i := len(b.Txs)
			b.Txs = append(b.Txs, raw)
			b.Notes = append(b.Notes, note)
			if hk != nil && hk.BeforeTx != nil {
				hk.BeforeTx(i)
			}
			t0 = time.Now()
			res, perr := c.Sim.Deliver(raw)
			tm("deliver", t0)
			if perr != nil {
				return c.panicked(perr)
			}
			br.Txs = append(br.Txs, res)
			t0 = time.Now()
			out := c.W.ApplyTx(raw, res)
			tm("applytx", t0)
			outs = append(outs, out)
			if hk != nil && hk.AfterTx != nil {
				hk.AfterTx(i, res)
			}
			if o.AfterTx != nil {
				o.AfterTx(c, b, i, res, out)
			}
		}
		c.Outcomes = append(c.Outcomes, outs)
		t0 = time.Now()
		ups, eev, perr := c.Sim.End()
		tm("end", t0)
		if perr != nil {
			return c.panicked(perr)
		}
		br.ValUpdates, br.EndEvents = ups, eev
		c.W.EndBlock(br)
		if hk != nil && hk.AfterEnd != nil {
			hk.AfterEnd()
		}
		src.EndBlock(c.W, b)
		t0 = time.Now()
		hash, perr := c.Sim.Commit()
		tm("commit", t0)
		if perr != nil {
			return c.panicked(perr)
		}
		br.AppHash = hash
		t0 = time.Now()
		c.W.Commit()
		tm("wcommit", t0)
		c.Results = append(c.Results, br)
		if hk != nil && hk.AfterCommit != nil {
			hk.AfterCommit()
		}
		tmErr := c.W.TM.ApplyEndBlock(br.Height, br.ValUpdates)
		t0 = time.Now()
		c.W.SyncAfterCommit(c.Sim)
		tm("sync", t0)
		if err := tmErr; err != nil {
			if err == errEmptySet {
				c.EndedBy = "empty_validator_set"
			} else {
				c.EndedBy = "bad_validator_update"
				c.W.fail("C10", "consensus engine rejects the validator updates of block %d: %v", br.Height, err)
			}
			if o.AfterCommit != nil {
				if err := o.AfterCommit(c, b, br); err != nil {
					return c, err
				}
			}
			return c, nil
		}
		if o.AfterCommit != nil {
			if err := o.AfterCommit(c, b, br); err != nil {
				return c, err
			}
		}
	}
}

func (c *Case) panicked(p *PanicError) (*Case, error) {
	c.EndedBy = "panic"
	c.Panic = p
	return c, p
}

// shape returns a compact signature of the case: sequence of (tx type, ok/reason) per block.
func (c *Case) shape() string {
	s := ""
	for bi, outs := range c.Outcomes {
		b := c.Hist.Blocks[bi]
		s += fmt.Sprintf("|e%d a%d:", len(b.Evidence), absentCount(b))
		for _, o := range outs {
			if o.OK {
				s += fmt.Sprintf("%d+", o.Type)
			} else {
				s += fmt.Sprintf("%d-%s", o.Type, o.Reason)
			}
			s += ","
		}
	}
	return s
}

func absentCount(b *Block) int {
	n := 0
	for _, v := range b.Votes {
		if !v.Signed {
			n++
		}
	}
	return n
}

// sample renders an abbreviated description of the case for the evidence file.
func (c *Case) sample(maxBlocks int) map[string]interface{} {
	var blocks []interface{}
	for bi, b := range c.Hist.Blocks {
		if bi >= maxBlocks {
			blocks = append(blocks, fmt.Sprintf("... %d more blocks", len(c.Hist.Blocks)-bi))
			break
		}
		var txs []string
		for i, n := range b.Notes {
			st := "?"
			if bi < len(c.Outcomes) && i < len(c.Outcomes[bi]) {
				o := c.Outcomes[bi][i]
				if o.OK {
					st = "ok"
				} else {
					st = "fail:" + o.Reason
				}
			}
			txs = append(txs, n+" => "+st)
		}
		blocks = append(blocks, map[string]interface{}{"h": bi + 1, "absent": absentCount(b), "evidence": len(b.Evidence), "txs": txs, "restart_after": b.RestartAfter, "injected": len(b.Inject)})
	}
	return map[string]interface{}{
		"validators": len(c.Hist.Genesis.Validators), "users": len(c.Hist.Genesis.Users),
		"params": c.Hist.Genesis.Params, "blocks": blocks, "ended_by": c.EndedBy,
	}
}
