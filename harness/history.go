//go:build verif

package harness

import (
	"encoding/json"
	"fmt"
	"os"
)

// Genesis is the concrete chain start: actors by name (keys are derived from names).
type Genesis struct {
	ChainID    string   `json:"chain_id"`
	Validators []GenVal `json:"validators"`
	Balances   []GenBal `json:"balances"`
	Params     *Params  `json:"params"`
	Users      []string `json:"users"` // non-validator actors
}

type GenVal struct {
	Actor string `json:"actor"`
	Power int64  `json:"power"`
}

type GenBal struct {
	Actor   string `json:"actor"`
	Balance string `json:"balance"`
}

type Vote struct {
	Addr   HexB  `json:"addr"`
	Power  int64 `json:"power"`
	Signed bool  `json:"signed"`
}

type Evid struct {
	Type   int32 `json:"type"`
	Addr   HexB  `json:"addr"`
	Power  int64 `json:"power"`
	Height int64 `json:"height"`
	Total  int64 `json:"total"`
}

// Injected is a CheckTx or Query served at a call boundary of a block.
// Pos: -1 = before BeginBlock, i in [0,len(txs)) = before DeliverTx i,
// len(txs) = after the last DeliverTx (before EndBlock), len(txs)+1 = after EndBlock,
// len(txs)+2 = after Commit.
type Injected struct {
	Pos    int    `json:"pos"`
	Kind   string `json:"kind"` // "check" | "query"
	Tx     HexB   `json:"tx,omitempty"`
	Path   string `json:"path,omitempty"`
	Data   HexB   `json:"data,omitempty"`
	Height int64  `json:"height,omitempty"`

	done     bool
	whenNote string
}

// Block is the concrete input of one block plus the per-engine schedule markers.
type Block struct {
	Proposer HexB     `json:"proposer,omitempty"`
	Votes    []Vote   `json:"votes,omitempty"`
	Evidence []Evid   `json:"evidence,omitempty"`
	Txs      []HexB2  `json:"-"`
	TxsHex   []HexB   `json:"txs,omitempty"`
	Notes    []string `json:"notes,omitempty"` // human-readable description of each tx (abstract op)

	RestartAfter bool       `json:"restart_after,omitempty"`
	Inject       []Injected `json:"inject,omitempty"`

	pendingTxs   [][]byte
	pendingNotes []string
}

// HexB2 is a plain byte slice (Txs is the working copy; TxsHex the serialised one).
type HexB2 = []byte

// HexB marshals as hex string.
type HexB []byte

func (h HexB) MarshalJSON() ([]byte, error) { return json.Marshal(hx(h)) }
func (h *HexB) UnmarshalJSON(b []byte) error {
	var s string
	if err := json.Unmarshal(b, &s); err != nil {
		return err
	}
	*h = unhx(s)
	return nil
}

// History is the replay-file format: everything needed to re-execute a case without rapid.
type History struct {
	Property string                     `json:"property"`
	Seed     string                     `json:"seed,omitempty"`
	Genesis  *Genesis                   `json:"genesis"`
	Blocks   []*Block                   `json:"blocks"`
	Extra    map[string]json.RawMessage `json:"extra,omitempty"`
	Failure  string                     `json:"failure,omitempty"`
}

func (h *History) size() int {
	n := 0
	for _, b := range h.Blocks {
		n += 1 + len(b.Txs) + len(b.Inject)
	}
	return n
}

func (h *History) sync() {
	for _, b := range h.Blocks {
		b.TxsHex = b.TxsHex[:0]
		for _, tx := range b.Txs {
			b.TxsHex = append(b.TxsHex, HexB(tx))
		}
	}
}

func (h *History) Save(path string) error {
	h.sync()
	bz, err := json.MarshalIndent(h, "", " ")
	if err != nil {
		return err
	}
	return os.WriteFile(path, bz, 0o644)
}

func LoadHistory(path string) (*History, error) {
	bz, err := os.ReadFile(path)
	if err != nil {
		return nil, err
	}
	h := &History{}
	if err := json.Unmarshal(bz, h); err != nil {
		return nil, err
	}
	for _, b := range h.Blocks {
		b.Txs = nil
		for _, tx := range b.TxsHex {
			b.Txs = append(b.Txs, []byte(tx))
		}
	}
	return h, nil
}

// dumpFailure keeps the smallest failing history seen in this process in $VERIF_OUT/replay.json.
var smallestDump = -1

func dumpFailure(h *History, msg string) {
	out := os.Getenv("VERIF_OUT")
	if out == "" {
		return
	}
	sz := h.size()
	if smallestDump >= 0 && sz > smallestDump {
		return
	}
	smallestDump = sz
	h.Failure = msg
	if err := h.Save(out + "/replay.json"); err != nil {
		fmt.Fprintln(os.Stderr, "cannot save replay:", err)
	}
}
