//go:build verif

package harness

import (
	"encoding/binary"
	"testing"

	"github.com/holiman/uint256"
	ctypes "github.com/rigochain/rigo-go/ctrlers/types"
)

// Native coverage-guided fuzz targets of C09 (thorough tier only; see DESIGN section 4, C09).
//
// One application instance lives per fuzz worker process. It is brought into a fixed prepared state
// (three validators, funded users, a delegation, a deployed contract, an open proposal) and every
// iteration works on top of it. The fuzz input is decoded into structured arguments: a mode byte and
// the transaction bytes; when the bytes decode as a transaction the harness can repair nonce, gas
// price, gas and signature (selected by mode bits) so that the mutated payload reaches the controllers
// instead of dying in the signature check. The oracle is inside the target: the call returns (a panic
// is recovered and reported with t.Fatalf, which makes the fuzzer save the input) and, every 64th
// iteration, a canned valid transfer still succeeds and commits.

var fz struct {
	sim     *Sim
	g       *Genesis
	iters   int
	propID  []byte
	stakeID []byte
}

var fzActors = []string{"V0", "V1", "V2", "U0", "U1", "U2"}

func fuzzGenesis() *Genesis {
	p := baseParams()
	p.MaxValidatorCnt = 5
	p.MinValidatorStake = rigo(1).Dec()
	p.MinVotingPeriodBlocks, p.MaxVotingPeriodBlocks = 1, 1_000_000
	p.LazyApplyingBlocks = 1
	g := &Genesis{ChainID: "verif-chain", Params: p, Users: []string{"U0", "U1", "U2"}}
	for _, n := range []string{"V0", "V1", "V2"} {
		g.Validators = append(g.Validators, GenVal{Actor: n, Power: 100})
	}
	for _, n := range fzActors {
		g.Balances = append(g.Balances, GenBal{Actor: n, Balance: rigo(1_000_000).Dec()})
	}
	return g
}

func fzNonce(t testing.TB, s *Sim, addr []byte) uint64 {
	var q qAccount
	if code, err := queryJSON(s, "account", addr, 0, &q); err != nil || code != 0 {
		t.Fatalf("C09: account query failed while preparing the fuzz state: code=%d err=%v", code, err)
	}
	return uint64(q.Nonce)
}

func fzTx(t testing.TB, s *Sim, g *Genesis, from string, typ int32, to []byte, amt uint64, gas uint64, pl ctypes.ITrxPayload) []byte {
	a := actorNamed(from)
	tx := &ctypes.Trx{Version: 1, Time: blockTime0, Nonce: fzNonce(t, s, a.Addr), From: a.Addr, To: to, Amount: rigoOrWei(amt), Gas: gas,
		GasPrice: g.Params.gasPrice(), Type: typ, Payload: pl}
	signTrx(a, tx, g.ChainID)
	return encodeTrx(tx)
}

func rigoOrWei(v uint64) *uint256.Int {
	if v >= 1_000_000 {
		return u256(v)
	}
	return rigo(v)
}

// fuzzSeedTxs: valid transactions of all eight types against the prepared state (also the seed corpus).
func fuzzSeedTxs(t testing.TB, s *Sim, g *Genesis) [][]byte {
	zero := make([]byte, 20)
	mg := g.Params.MinTrxGas
	v0 := actorNamed("V0").Addr
	var out [][]byte
	out = append(out, fzTx(t, s, g, "U0", ctypes.TRX_TRANSFER, actorNamed("U1").Addr, 1, mg, &ctypes.TrxPayloadAssetTransfer{}))
	out = append(out, fzTx(t, s, g, "U1", ctypes.TRX_STAKING, v0, 2, mg, &ctypes.TrxPayloadStaking{}))
	out = append(out, fzTx(t, s, g, "U2", ctypes.TRX_SETDOC, zero, 0, mg, &ctypes.TrxPayloadSetDoc{Name: "n", URL: "u"}))
	out = append(out, fzTx(t, s, g, "V1", ctypes.TRX_WITHDRAW, zero, 0, mg, &ctypes.TrxPayloadWithdraw{ReqAmt: u256(0)}))
	out = append(out, fzTx(t, s, g, "V0", ctypes.TRX_PROPOSAL, zero, 0, mg, &ctypes.TrxPayloadProposal{Message: "m", StartVotingHeight: s.H + 5, VotingPeriodBlocks: 10, ApplyingHeight: s.H + 20, OptType: 0x0101, Options: [][]byte{[]byte(`{"slashRatio":"7"}`)}}))
	out = append(out, fzTx(t, s, g, "V2", ctypes.TRX_CONTRACT, zero, 0, 1_000_000, &ctypes.TrxPayloadContract{Data: initCodeFor(sinkRuntime)}))
	return out
}

// fuzzApp returns the worker's application in the prepared state.
func fuzzApp(t testing.TB) *Sim {
	if fz.sim != nil {
		return fz.sim
	}
	g := fuzzGenesis()
	s := NewSim(g)
	fz.sim, fz.g = s, g
	run := func(txs ...[]byte) *BlockResult {
		br, perr := s.RunBlock(&Block{Txs: txs}, nil)
		if perr != nil {
			t.Fatalf("C09: preparing the fuzz state panicked: %v", perr)
		}
		return br
	}
	run()
	// two blocks signed by all genesis validators, so that reward records exist
	var votes []Vote
	for _, v := range g.Validators {
		votes = append(votes, Vote{Addr: actorNamed(v.Actor).Addr, Power: v.Power, Signed: true})
	}
	for i := 0; i < 2; i++ {
		if _, perr := s.RunBlock(&Block{Votes: votes, Proposer: actorNamed("V0").Addr}, nil); perr != nil {
			t.Fatalf("C09: preparing the fuzz state panicked: %v", perr)
		}
	}
	seeds := fuzzSeedTxs(t, s, g)
	br := run(seeds...)
	for i, r := range br.Txs {
		if r.Code != 0 {
			t.Fatalf("C09: seed tx %d rejected while preparing the fuzz state: %s", i, r.Log)
		}
	}
	fz.stakeID, fz.propID = txHashOf(seeds[1]), txHashOf(seeds[4])
	run()
	return s
}

func decodeMode(mode byte) (resign, fixNonce, fixPrice, fixGas bool, actor string) {
	return mode&1 != 0, mode&2 != 0, mode&4 != 0, mode&8 != 0, fzActors[int(mode>>4)%len(fzActors)]
}

// repair applies the structured part of the fuzz input: the raw bytes are kept when they do not decode.
func fuzzRepair(t testing.TB, s *Sim, mode byte, data []byte) []byte {
	resign, fixNonce, fixPrice, fixGas, actor := decodeMode(mode)
	if !resign {
		return data
	}
	tx := &ctypes.Trx{}
	if tx.Decode(data) != nil {
		return data
	}
	a := actorNamed(actor)
	tx.From = a.Addr
	if fixNonce {
		tx.Nonce = fzNonce(t, s, a.Addr)
	}
	if fixPrice {
		tx.GasPrice = fz.g.Params.gasPrice()
	}
	if fixGas {
		tx.Gas = fz.g.Params.MinTrxGas
		if tx.Type == ctypes.TRX_CONTRACT {
			tx.Gas = 1_000_000
		}
	}
	if tx.Amount == nil {
		tx.Amount = u256(0)
	}
	if tx.GasPrice == nil {
		tx.GasPrice = u256(0)
	}
	var raw []byte
	if perr := guard("harness:sign", func() {
		signTrx(a, tx, fz.g.ChainID)
		raw = encodeTrx(tx)
	}); perr != nil {
		return data // the harness cannot even encode it: deliver the raw bytes
	}
	return raw
}

func fuzzStillUsable(t testing.TB, s *Sim) {
	fz.iters++
	if fz.iters%64 != 0 {
		return
	}
	raw := fzTx(t, s, fz.g, "U0", ctypes.TRX_TRANSFER, actorNamed("U1").Addr, 0, fz.g.Params.MinTrxGas, &ctypes.TrxPayloadAssetTransfer{})
	br, perr := s.RunBlock(&Block{Txs: [][]byte{raw}}, nil)
	if perr != nil {
		t.Fatalf("C09: node unusable after fuzz inputs: %v", perr)
	}
	if br.Txs[0].Code != 0 {
		t.Fatalf("C09: node unusable after fuzz inputs: canned transfer rejected: %s", br.Txs[0].Log)
	}
}

func addSeeds(f *testing.F) {
	s := fuzzApp(f)
	for _, raw := range fuzzSeedTxs(f, s, fz.g) {
		f.Add(byte(0), raw)
		f.Add(byte(0x0f), raw)
		f.Add(byte(0x3f), raw)
	}
	// payload-bearing types that need ids of the prepared state
	zero := make([]byte, 20)
	mg := fz.g.Params.MinTrxGas
	f.Add(byte(0x0f|0x40), fzTx(f, s, fz.g, "U1", ctypes.TRX_UNSTAKING, actorNamed("V0").Addr, 0, mg, &ctypes.TrxPayloadUnstaking{TxHash: fz.stakeID}))
	f.Add(byte(0x0f), fzTx(f, s, fz.g, "V0", ctypes.TRX_VOTING, zero, 0, mg, &ctypes.TrxPayloadVoting{TxHash: fz.propID, Choice: 0}))
	f.Add(byte(0x01), fzTx(f, s, fz.g, "V1", ctypes.TRX_WITHDRAW, zero, 0, mg, &ctypes.TrxPayloadWithdraw{ReqAmt: u256(1)}))
	// hostile constants
	f.Add(byte(0), []byte{})
	f.Add(byte(1), []byte{0x08, 0x01})
	f.Add(byte(0xff), []byte{0xff, 0xff, 0xff, 0xff, 0xff, 0xff, 0xff, 0xff, 0xff, 0x01})
	big := make([]byte, 5000)
	f.Add(byte(0), big)
}

func FuzzDeliverTx(f *testing.F) {
	addSeeds(f)
	f.Fuzz(func(t *testing.T, mode byte, data []byte) {
		s := fuzzApp(t)
		raw := fuzzRepair(t, s, mode, data)
		if _, perr := s.Begin(&Block{}); perr != nil {
			t.Fatalf("C09: %v", perr)
		}
		if _, perr := s.Deliver(raw); perr != nil {
			t.Fatalf("C09: the application panicked in DeliverTx on a fuzz input: %v\n%s", perr, trunc(perr.Stack, 1500))
		}
		if _, _, perr := s.End(); perr != nil {
			t.Fatalf("C09: the application panicked in EndBlock after a fuzz input: %v\n%s", perr, trunc(perr.Stack, 1500))
		}
		if _, perr := s.Commit(); perr != nil {
			t.Fatalf("C09: the application panicked in Commit after a fuzz input: %v", perr)
		}
		fuzzStillUsable(t, s)
	})
}

func FuzzCheckTx(f *testing.F) {
	addSeeds(f)
	f.Fuzz(func(t *testing.T, mode byte, data []byte) {
		s := fuzzApp(t)
		raw := fuzzRepair(t, s, mode, data)
		if _, perr := s.CheckTx(raw); perr != nil {
			t.Fatalf("C09: the application panicked in CheckTx on a fuzz input: %v\n%s", perr, trunc(perr.Stack, 1500))
		}
		fuzzStillUsable(t, s)
	})
}

func FuzzQuery(f *testing.F) {
	s := fuzzApp(f)
	for i := range c09QueryPaths {
		f.Add(byte(i), int64(0), actorNamed("V0").Addr)
		f.Add(byte(i), s.H, fz.propID)
		f.Add(byte(i), int64(-1), []byte{})
	}
	f.Add(byte(8), int64(0), append(append([]byte{}, actorNamed("U0").Addr...), make([]byte, 20)...))
	f.Fuzz(func(t *testing.T, pathSel byte, height int64, data []byte) {
		s := fuzzApp(t)
		path := c09QueryPaths[int(pathSel)%len(c09QueryPaths)]
		if pathSel >= 128 && len(data) > 0 {
			n := int(data[0]) % (len(data) + 1)
			path = string(data[:n])
		}
		// heights near the tip are the interesting ones; the raw int64 covers the extremes
		if pathSel&64 != 0 {
			height = s.H + int64(int8(binary.LittleEndian.Uint16(append(data, 0, 0)[:2])))
		}
		if _, perr := s.Query(path, data, height); perr != nil {
			t.Fatalf("C09: the application panicked in Query(%q, height %d) on a fuzz input: %v\n%s", path, height, perr, trunc(perr.Stack, 1500))
		}
		fuzzStillUsable(t, s)
	})
}
