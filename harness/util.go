//go:build verif

package harness

import (
	"crypto/ecdsa"
	"crypto/sha256"
	"encoding/hex"
	"fmt"
	"math/big"
	"os"
	"sort"

	ethcrypto "github.com/ethereum/go-ethereum/crypto"
	"github.com/holiman/uint256"
	ctypes "github.com/rigochain/rigo-go/ctrlers/types"
	rcrypto "github.com/rigochain/rigo-go/types/crypto"
)

// Actor is a key pair with its rigo address. Keys are derived from a label so
// that every run (and every replica) sees the same actors.
type Actor struct {
	Name string
	Key  *ecdsa.PrivateKey
	Addr []byte // 20 bytes
	Pub  []byte // 33 bytes compressed
}

var actorCache = map[string]*Actor{}

func actorNamed(name string) *Actor {
	if a, ok := actorCache[name]; ok {
		return a
	}
	seed := sha256.Sum256([]byte("verif-actor:" + name))
	k, err := ethcrypto.ToECDSA(seed[:])
	if err != nil {
		// practically impossible (seed >= group order); derive again
		seed = sha256.Sum256(seed[:])
		k, err = ethcrypto.ToECDSA(seed[:])
		if err != nil {
			panic(err)
		}
	}
	a := &Actor{Name: name, Key: k}
	a.Pub = ethcrypto.CompressPubkey(&k.PublicKey)
	a.Addr = rcrypto.Pub2Addr(&k.PublicKey)
	actorCache[name] = a
	return a
}

// signTrx signs tx for chainID exactly like web3.Wallet.SignTrxRLP does
// (sha256 of the RLP preimage, secp256k1, RFC6979 deterministic nonce).
func signTrx(a *Actor, tx *ctypes.Trx, chainID string) {
	pre, xerr := ctypes.PreImageToSignTrxRLP(tx, chainID)
	if xerr != nil {
		panic(xerr)
	}
	h := sha256.Sum256(pre)
	sig, err := ethcrypto.Sign(h[:], a.Key)
	if err != nil {
		panic(err)
	}
	tx.Sig = sig
}

func encodeTrx(tx *ctypes.Trx) []byte {
	bz, xerr := tx.Encode()
	if xerr != nil {
		panic(xerr)
	}
	return bz
}

func u256(v uint64) *uint256.Int { return uint256.NewInt(v) }

func u256dec(s string) *uint256.Int {
	v, err := uint256.FromDecimal(s)
	if err != nil {
		panic(fmt.Sprintf("bad decimal %q: %v", s, err))
	}
	return v
}

var oneRigo = uint256.NewInt(1_000_000_000_000_000_000)

func rigo(n uint64) *uint256.Int { return new(uint256.Int).Mul(uint256.NewInt(n), oneRigo) }

func bigOf(v *uint256.Int) *big.Int { return v.ToBig() }

func hx(b []byte) string { return hex.EncodeToString(b) }

func unhx(s string) []byte {
	b, err := hex.DecodeString(s)
	if err != nil {
		panic(err)
	}
	return b
}

func sortedKeys[V any](m map[string]V) []string {
	ks := make([]string, 0, len(m))
	for k := range m {
		ks = append(ks, k)
	}
	sort.Strings(ks)
	return ks
}

func envOr(k, d string) string {
	if v := os.Getenv(k); v != "" {
		return v
	}
	return d
}

func sha(bs ...[]byte) []byte {
	h := sha256.New()
	for _, b := range bs {
		h.Write(b)
	}
	return h.Sum(nil)
}

func shortHash(s string) string {
	h := sha256.Sum256([]byte(s))
	return hex.EncodeToString(h[:8])
}
