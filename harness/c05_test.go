//go:build verif

package harness

import (
	"bytes"
	"testing"
)

// C05 Atomicity (metamorphic twin): a block with failed transactions is equivalent to the same
// block with exactly those transactions removed.
func TestC05(t *testing.T) {
	p := defaultProfile()
	p.MinBlocks, p.MaxBlocks = 6, 24
	p.PFault = 25
	p.MaxTxs = 8
	p.W["raw"] = 1
	p.W["propose"], p.W["vote"] = 10, 18
	// 30 % of the histories: many stakes on few validators, validators leaving with their delegators - the stake
	// transactions with the most steps between their first write and their last check
	p.Alt, p.PAlt = massExitProfile(), 30
	p.Alt.PFault = 25
	runCheck(t, "C05", p, func(src Source, st *Stats) *Outcome {
		var digests [][]string
		c, err := RunPrimary("C05", src, &PrimaryOpts{AfterCommit: func(c *Case, b *Block, br *BlockResult) error {
			d, perr := semanticDigest(c.Sim)
			if perr != nil {
				return perr
			}
			digests = append(digests, d)
			return nil
		}})
		out := &Outcome{Case: c}
		if err != nil {
			if _, isPanic := err.(*PanicError); isPanic {
				return out
			}
			out.Err = err
			return out
		}
		failed, late, lateThenTouch := 0, 0, 0
		sb, _, rerr := runReplica(c.Hist,
			func(s *Sim, bi int, b *Block) *BlockHooks {
				return &BlockHooks{SkipTx: func(i int) bool { return c.Results[bi].Txs[i].Code != 0 }}
			},
			func(s *Sim, bi int, b *Block, br *BlockResult) error {
				ra := c.Results[bi]
				for i := range ra.Txs {
					x, y := ra.Txs[i], br.Txs[i]
					if x.Code != 0 {
						failed++
						if c.Outcomes[bi][i].Late {
							late++
							for j := i + 1; j < len(ra.Txs); j++ {
								if ra.Txs[j].Code == 0 {
									lateThenTouch++
									break
								}
							}
						}
						continue
					}
					if x.Code != y.Code || !bytes.Equal(x.Data, y.Data) || x.GasUsed != y.GasUsed {
						return violationf("height %d tx %d behaves differently once the failed txs before it are removed: (code=%d data=%x gasUsed=%d) vs (code=%d data=%x gasUsed=%d log=%q)",
							ra.Height, i, x.Code, x.Data, x.GasUsed, y.Code, y.Data, y.GasUsed, y.Log)
					}
				}
				ua, ub := sortedUps(ra.ValUpdates), sortedUps(br.ValUpdates)
				if len(ua) != len(ub) {
					return violationf("height %d: validator updates differ without the failed txs: %v vs %v", ra.Height, ua, ub)
				}
				for i := range ua {
					if !bytes.Equal(ua[i].Pub, ub[i].Pub) || ua[i].Power != ub[i].Power {
						return violationf("height %d: validator updates differ without the failed txs: %v vs %v", ra.Height, ua, ub)
					}
				}
				d, perr := semanticDigest(s)
				if perr != nil {
					return perr
				}
				if df := diffLines(digests[bi], d); df != "" {
					return violationf("height %d: committed state differs from the state of the same block without its failed txs (A = with failed txs):%s", ra.Height, df)
				}
				return nil
			})
		defer sb.Close(true)
		if rerr != nil {
			if v, ok := rerr.(*ViolationError); ok {
				out.Err = v
			} else {
				out.Err = violationf("replica without the failed txs failed: %v", rerr)
			}
			return out
		}
		// second twin: only one of the failed txs of each block is removed (a late failure if there is one). Every
		// other tx - those that fail included - must behave exactly as it did with the failed tx in the block:
		// "later transactions in the same block observe the unchanged state". (The first twin cannot see a failed
		// tx that makes a later tx fail: it removes both.)
		removed := make([]int, len(c.Results))
		oneRemoved, laterFailedKept := 0, 0
		for bi, ra := range c.Results {
			removed[bi] = -1
			var fl, late []int
			for i, x := range ra.Txs {
				if x.Code != 0 {
					fl = append(fl, i)
					if c.Outcomes[bi][i].Late {
						late = append(late, i)
					}
				}
			}
			pickFrom := fl
			if len(late) > 0 && sha([]byte{byte(bi), 7})[0]%4 != 0 {
				pickFrom = late
			}
			if len(pickFrom) > 0 {
				removed[bi] = pickFrom[int(sha([]byte{byte(bi), byte(len(ra.Txs))})[0])%len(pickFrom)]
				oneRemoved++
				for _, j := range fl {
					if j > removed[bi] {
						laterFailedKept++
						break
					}
				}
			}
		}
		sc, _, rerr2 := runReplica(c.Hist,
			func(s *Sim, bi int, b *Block) *BlockHooks {
				return &BlockHooks{SkipTx: func(i int) bool { return i == removed[bi] }}
			},
			func(s *Sim, bi int, b *Block, br *BlockResult) error {
				ra := c.Results[bi]
				for i := range ra.Txs {
					if i == removed[bi] {
						continue
					}
					x, y := ra.Txs[i], br.Txs[i]
					if x.Code != y.Code || !bytes.Equal(x.Data, y.Data) || x.GasUsed != y.GasUsed || (x.Code != 0 && x.Log != y.Log) {
						return violationf("height %d tx %d behaves differently once the failed tx %d of the block (code=%d log=%q) is removed: (code=%d data=%x gasUsed=%d log=%q) vs (code=%d data=%x gasUsed=%d log=%q)",
							ra.Height, i, removed[bi], ra.Txs[removed[bi]].Code, ra.Txs[removed[bi]].Log, x.Code, x.Data, x.GasUsed, x.Log, y.Code, y.Data, y.GasUsed, y.Log)
					}
				}
				d, perr := semanticDigest(s)
				if perr != nil {
					return perr
				}
				if df := diffLines(digests[bi], d); df != "" {
					return violationf("height %d: committed state differs once the failed tx %d of the block is removed (A = with it):%s", ra.Height, removed[bi], df)
				}
				return nil
			})
		defer sc.Close(true)
		if rerr2 != nil {
			if v, ok := rerr2.(*ViolationError); ok {
				out.Err = v
			} else {
				out.Err = violationf("replica without one failed tx per block failed: %v", rerr2)
			}
			return out
		}
		st.label("second_twin:blocks_with_one_failed_tx_removed", oneRemoved)
		st.label("second_twin:removed_tx_followed_by_another_failing_tx", laterFailedKept)
		st.label("failed_txs", failed)
		st.label("late_failures", late)
		st.label("late_failure_followed_by_success_same_block", lateThenTouch)
		out.Nontrivial = lateThenTouch > 0
		out.Shape = c.shape()
		return out
	})
}
