//go:build verif

package harness

import (
	"bytes"
	"testing"
)

// C05 Atomicity (metamorphic twin): a block with failed transactions is equivalent to the same
// block with exactly those transactions removed.
func TestC05(t *testing.T) {
	p := defaultProfile()
	p.MinBlocks, p.MaxBlocks = 6, 24
	p.PFault = 25
	p.MaxTxs = 8
	p.W["raw"] = 1
	runCheck(t, "C05", p, func(src Source, st *Stats) *Outcome {
		var digests [][]string
		c, err := RunPrimary("C05", src, &PrimaryOpts{AfterCommit: func(c *Case, b *Block, br *BlockResult) error {
			d, perr := semanticDigest(c.Sim)
			if perr != nil {
				return perr
			}
			digests = append(digests, d)
			return nil
		}})
		out := &Outcome{Case: c}
		if err != nil {
			if _, isPanic := err.(*PanicError); isPanic {
				return out
			}
			out.Err = err
			return out
		}
		failed, late, lateThenTouch := 0, 0, 0
		sb, _, rerr := runReplica(c.Hist,
			func(s *Sim, bi int, b *Block) *BlockHooks {
				return &BlockHooks{SkipTx: func(i int) bool { return c.Results[bi].Txs[i].Code != 0 }}
			},
			func(s *Sim, bi int, b *Block, br *BlockResult) error {
				ra := c.Results[bi]
				for i := range ra.Txs {
					x, y := ra.Txs[i], br.Txs[i]
					if x.Code != 0 {
						failed++
						if c.Outcomes[bi][i].Late {
							late++
							for j := i + 1; j < len(ra.Txs); j++ {
								if ra.Txs[j].Code == 0 {
									lateThenTouch++
									break
								}
							}
						}
						continue
					}
					if x.Code != y.Code || !bytes.Equal(x.Data, y.Data) || x.GasUsed != y.GasUsed {
						return violationf("height %d tx %d behaves differently once the failed txs before it are removed: (code=%d data=%x gasUsed=%d) vs (code=%d data=%x gasUsed=%d log=%q)",
							ra.Height, i, x.Code, x.Data, x.GasUsed, y.Code, y.Data, y.GasUsed, y.Log)
					}
				}
				ua, ub := sortedUps(ra.ValUpdates), sortedUps(br.ValUpdates)
				if len(ua) != len(ub) {
					return violationf("height %d: validator updates differ without the failed txs: %v vs %v", ra.Height, ua, ub)
				}
				for i := range ua {
					if !bytes.Equal(ua[i].Pub, ub[i].Pub) || ua[i].Power != ub[i].Power {
						return violationf("height %d: validator updates differ without the failed txs: %v vs %v", ra.Height, ua, ub)
					}
				}
				d, perr := semanticDigest(s)
				if perr != nil {
					return perr
				}
				if df := diffLines(digests[bi], d); df != "" {
					return violationf("height %d: committed state differs from the state of the same block without its failed txs (A = with failed txs):%s", ra.Height, df)
				}
				return nil
			})
		defer sb.Close(true)
		if rerr != nil {
			if v, ok := rerr.(*ViolationError); ok {
				out.Err = v
			} else {
				out.Err = violationf("replica without the failed txs failed: %v", rerr)
			}
			return out
		}
		st.label("failed_txs", failed)
		st.label("late_failures", late)
		st.label("late_failure_followed_by_success_same_block", lateThenTouch)
		out.Nontrivial = lateThenTouch > 0
		out.Shape = c.shape()
		return out
	})
}
