//go:build verif

package harness

import (
	"fmt"
	"math"
	"testing"

	"github.com/holiman/uint256"
	ctypes "github.com/rigochain/rigo-go/ctrlers/types"
	"pgregory.net/rapid"
)

// ---- hostile input generators -------------------------------------------------

func hostileAmount(t *rapid.T, label string) *uint256.Int {
	switch unif(t, 8, label) {
	case 0:
		return u256(0)
	case 1:
		return u256(1)
	case 2:
		return new(uint256.Int).Lsh(u256(1), 255)
	case 3:
		return new(uint256.Int).Not(u256(0))
	case 4:
		return new(uint256.Int).Lsh(u256(1), 64)
	case 5:
		return rigo(uint64(1 + unif(t, 20, label+"R")))
	default:
		return u256(uint64(rapid.Uint32().Draw(t, label+"S")))
	}
}

func hostileBytes(t *rapid.T, lens []int, label string) []byte {
	n := pick(t, lens, label+"Len")
	if n == 0 {
		if pct(t, 50, label+"Nil") {
			return nil
		}
		return []byte{}
	}
	return rapid.SliceOfN(rapid.Byte(), n, n).Draw(t, label)
}

func hostileInt64(t *rapid.T, around int64, label string) int64 {
	return pick(t, []int64{math.MinInt64, -1, 0, 1, around - 1, around, around + 1, around + 2, around + 5, math.MaxInt64, math.MaxInt64 - 1}, label)
}

func hostilePayload(t *rapid.T, typ int32, w *World) ctypes.ITrxPayload {
	h := w.curH
	switch typ {
	case ctypes.TRX_TRANSFER:
		return &ctypes.TrxPayloadAssetTransfer{}
	case ctypes.TRX_STAKING:
		return &ctypes.TrxPayloadStaking{}
	case ctypes.TRX_UNSTAKING:
		id := hostileBytes(t, []int{0, 1, 31, 32, 32, 32, 33, 64}, "unstakeId")
		if len(id) == 32 && pct(t, 50, "realStake") {
			for _, k := range sortedKeys(w.Delegs) {
				if len(w.Delegs[k].Stakes) > 0 {
					id = w.Delegs[k].Stakes[0].TxHash
				}
			}
		}
		return &ctypes.TrxPayloadUnstaking{TxHash: id}
	case ctypes.TRX_WITHDRAW:
		return &ctypes.TrxPayloadWithdraw{ReqAmt: hostileAmount(t, "reqAmt")}
	case ctypes.TRX_PROPOSAL:
		n := unif(t, 5, "nOpts")
		var opts [][]byte
		for i := 0; i < n; i++ {
			if pct(t, 80, "docFromList") {
				opts = append(opts, []byte(pick(t, hostileDocs, "doc")))
			} else {
				opts = append(opts, rapid.SliceOfN(rapid.Byte(), 0, 40).Draw(t, "docBytes"))
			}
		}
		return &ctypes.TrxPayloadProposal{
			Message:            string(make([]byte, pick(t, []int{0, 1, 100, 5000}, "msgLen"))),
			StartVotingHeight:  hostileInt64(t, h, "start"),
			VotingPeriodBlocks: hostileInt64(t, w.Params.MinVotingPeriodBlocks, "period"),
			ApplyingHeight:     hostileInt64(t, h+3, "apply"),
			OptType:            pick(t, []int32{0x0101, 0x0200, 0, -1, math.MaxInt32, math.MinInt32}, "optType"),
			Options:            opts,
		}
	case ctypes.TRX_VOTING:
		id := hostileBytes(t, []int{0, 1, 31, 32, 32, 33}, "voteId")
		choices := []int32{0, 1, 2, -1, -2, 100, math.MaxInt32, math.MinInt32}
		if ks := sortedKeys(w.Open); len(ks) > 0 && pct(t, 60, "realProposal") {
			pr := w.Open[pick(t, ks, "whichProposal")]
			id = pr.TxHash
			// the boundaries of this proposal's option list
			n := int32(len(pr.Options))
			choices = append(choices, n, n, n-1, n+1)
		}
		return &ctypes.TrxPayloadVoting{TxHash: id, Choice: pick(t, choices, "choice")}
	case ctypes.TRX_CONTRACT:
		switch unif(t, 10, "contractData") {
		case 0, 1, 2:
			// a generated program (conditional reverts/returns with honest and hostile ABI data, nested calls, creates, self-destructs)
			prog := genProgram(t)
			if pct(t, 60, "hostileReturnData") {
				// what a contract hands back is input too: a branch that reverts/returns with ABI-looking data
				st := &Stmt{K: pick(t, []string{"revertdata", "revertdata", "returndata"}, "dataKind"), Cond: unif(t, 5, "dataCond"), N: unif(t, len(abiDataTemplates), "dataTpl")}
				prog.Stmts = append([]*Stmt{st}, prog.Stmts...)
			}
			return &ctypes.TrxPayloadContract{Data: prog.deployCode()}
		case 3:
			// init code that itself reverts with such data
			p := &Program{Stmts: []*Stmt{{K: "revertdata", Cond: -1, N: unif(t, len(abiDataTemplates), "initTpl")}}}
			return &ctypes.TrxPayloadContract{Data: p.runtime()}
		case 4, 5, 6:
			// calldata for a deployed program: selector word + argument words
			cd := word([]byte{byte(unif(t, 5, "sel"))})
			for i := 0; i < 3; i++ {
				cd = append(cd, word(rapid.SliceOfN(rapid.Byte(), 20, 20).Draw(t, "argWord"))...)
			}
			return &ctypes.TrxPayloadContract{Data: cd}
		}
		return &ctypes.TrxPayloadContract{Data: rapid.SliceOfN(rapid.Byte(), 0, 120).Draw(t, "code")}
	case ctypes.TRX_SETDOC:
		return &ctypes.TrxPayloadSetDoc{Name: string(make([]byte, pick(t, []int{0, 1, 2048, 2049, 5000}, "nameLen"))), URL: string(make([]byte, pick(t, []int{0, 1, 2048, 2049, 5000}, "urlLen")))}
	}
	return nil
}

// hostileTx builds a transaction with hostile field values; most are correctly signed by a
// funded account with the right nonce and gas price so that they reach the controllers.
func hostileTx(t *rapid.T, w *World, actors []*Actor) ([]byte, string) {
	from := pick(t, actors, "from")
	typ := int32(1 + unif(t, 8, "type"))
	if pct(t, 8, "oddType") {
		typ = pick(t, []int32{-3, -1, 0, 9, 12, math.MaxInt32, math.MinInt32}, "oddTypeVal")
	}
	plType := typ
	if pct(t, 12, "wrongPayload") || typ < 1 || typ > 8 {
		plType = int32(1 + unif(t, 8, "payloadType"))
	}
	pl := hostilePayload(t, plType, w)
	tx := &ctypes.Trx{Version: pick(t, []uint32{1, 0, math.MaxUint32}, "version"), Time: hostileInt64(t, blockTime0, "time"),
		Nonce: w.acct(from.Addr).Nonce, From: from.Addr, Amount: u256(0), Gas: w.Params.MinTrxGas, GasPrice: w.Params.gasPrice(), Type: typ, Payload: pl}
	// receiver
	switch unif(t, 8, "toKind") {
	case 0:
		tx.To = make([]byte, 20)
	case 1:
		tx.To = from.Addr
	case 2:
		tx.To = hostileBytes(t, []int{0, 1, 19, 21, 32, 40}, "oddTo")
	case 3, 4:
		if ks := sortedKeys(w.Contracts); len(ks) > 0 {
			tx.To = unhx(pick(t, ks, "toContract"))
			break
		}
		fallthrough
	default:
		tx.To = pick(t, actors, "to").Addr
	}
	if typ == ctypes.TRX_PROPOSAL || typ == ctypes.TRX_VOTING || typ == ctypes.TRX_WITHDRAW || typ == ctypes.TRX_SETDOC {
		if pct(t, 75, "zeroTo") {
			tx.To = make([]byte, 20)
		}
	}
	if typ == ctypes.TRX_CONTRACT || plType == ctypes.TRX_CONTRACT {
		tx.Gas = pick(t, []uint64{0, 20999, 21000, 53000, 100000, 300000, 1000000, 1000000, 30000000}, "cgas")
	}
	if ks := sortedKeys(w.Contracts); typ == ctypes.TRX_CONTRACT && plType == typ && len(ks) > 0 && pct(t, 55, "callDeployed") {
		// a call of something deployed earlier in this history (possibly a hostile program), mostly with well-formed calldata
		tx.To = unhx(pick(t, ks, "deployed"))
		if pct(t, 75, "wellFormedCalldata") {
			cd := word([]byte{byte(unif(t, 5, "callSel"))})
			for i := 0; i < 3; i++ {
				cd = append(cd, word(pick(t, actors, "callArg").Addr)...)
			}
			tx.Payload = &ctypes.TrxPayloadContract{Data: cd}
		}
		tx.Gas = pick(t, []uint64{100000, 300000, 1000000, 1000000, 21000}, "callGas")
	}
	if pct(t, 30, "hostileAmt") || typ == ctypes.TRX_TRANSFER || typ == ctypes.TRX_STAKING {
		tx.Amount = hostileAmount(t, "amount")
	}
	if pct(t, 10, "hostileGas") {
		tx.Gas = pick(t, []uint64{0, 1, 1 << 63, math.MaxUint64, math.MaxInt64}, "gas")
	}
	if pct(t, 8, "hostilePrice") {
		tx.GasPrice = hostileAmount(t, "price")
	}
	if pct(t, 8, "hostileNonce") {
		tx.Nonce = pick(t, []uint64{0, tx.Nonce + 1, math.MaxUint64}, "nonce")
	}
	if pct(t, 6, "oddFrom") {
		tx.From = hostileBytes(t, []int{0, 1, 19, 21, 40}, "oddFrom")
	} else if pct(t, 5, "unknownFrom") {
		from = actorNamed("stranger")
		tx.From = from.Addr
	}
	if pct(t, 85, "signed") {
		signTrx(from, tx, w.ChainID)
	} else {
		tx.Sig = hostileBytes(t, []int{0, 1, 64, 65, 66}, "sig")
	}
	raw := encodeTrx(tx)
	note := fmt.Sprintf("hostile type=%d payload=%d to=%d bytes gas=%d", typ, plType, len(tx.To), tx.Gas)
	if pct(t, 15, "mutate") && len(raw) > 0 {
		switch unif(t, 3, "mutKind") {
		case 0:
			raw = raw[:unif(t, len(raw), "truncAt")]
		case 1:
			raw[unif(t, len(raw), "flipAt")] ^= byte(1 << uint(unif(t, 8, "flipBit")))
		case 2:
			raw = append(raw, rapid.SliceOfN(rapid.Byte(), 1, 16).Draw(t, "tail")...)
		}
		note += " +bytes-mutated"
	}
	return raw, note
}

var c09QueryPaths = []string{"account", "delegatee", "stakes", "stakes/total_power", "stakes/voting_power", "reward", "proposal", "gov_params", "vm_call", "vm_call", "", "accounts", "stakes/", "/"}

func hostileQuery(t *rapid.T, w *World, actors []*Actor) Injected {
	q := Injected{Kind: "query", Path: pick(t, c09QueryPaths, "path")}
	if pct(t, 5, "randomPath") {
		q.Path = rapid.StringN(0, 12, 12).Draw(t, "pathStr")
	}
	switch unif(t, 6, "dataKind") {
	case 0:
		q.Data = nil
	case 1:
		q.Data = pick(t, actors, "addr").Addr
	case 2:
		q.Data = hostileBytes(t, []int{0, 1, 19, 20, 21, 31, 32, 33, 39, 40, 41, 80}, "data")
	case 3:
		if ks := append(sortedKeys(w.Open), sortedKeys(w.Frozen)...); len(ks) > 0 {
			q.Data = unhx(ks[0])
		}
	case 4: // vm_call shaped: from(20) to(20) calldata
		q.Data = append(append(append([]byte{}, pick(t, actors, "vmFrom").Addr...), pick(t, actors, "vmTo").Addr...), rapid.SliceOfN(rapid.Byte(), 0, 40).Draw(t, "calldata")...)
		if ks := sortedKeys(w.Contracts); len(ks) > 0 && pct(t, 70, "vmToContract") {
			copy(q.Data[20:40], unhx(pick(t, ks, "vmContract")))
			if pct(t, 60, "vmSelector") {
				q.Data = append(q.Data[:40], word([]byte{byte(unif(t, 5, "vmSel"))})...)
			}
		}
	case 5:
		q.Data = rapid.SliceOfN(rapid.Byte(), 0, 80).Draw(t, "anyData")
	}
	q.Height = pick(t, []int64{math.MinInt64, -1, 0, 0, 1, w.H, w.H, w.H + 1, w.H + 2, math.MaxInt64}, "height")
	return q
}

// C09: no input crashes the node.
func TestC09(t *testing.T) {
	p := defaultProfile()
	p.MinBlocks, p.MaxBlocks = 4, 14
	p.MaxTxs = 5
	p.W["raw"] = 8
	p.LiveInject = true
	// a quarter of the histories: input that strikes later - hostile option documents inside well-formed proposals
	// that are voted on and, when they pass validation, applied some blocks later
	alt := govHeavyProfile()
	alt.MinBlocks, alt.MaxBlocks = 10, 28
	alt.GovFocus = ""
	alt.HostileDocs, alt.HostileDocsWide = true, true
	alt.Consensus = 65
	alt.MaxTxs = 14
	alt.PEvidence, alt.PAbsent = 12, 8 // slashing, jailing and rewards under whatever the voters have put in force
	alt.W["propose"], alt.W["vote"] = 12, 45
	alt.W["raw"] = 4
	alt.LiveInject = true
	p.Alt, p.PAlt = alt, 25
	runCheck(t, "C09", p, func(src Source, st *Stats) *Outcome {
		gs, generating := src.(*GenSource)
		reached := map[string]int{}
		var cur *Case
		var serveFn func(c *Case, b *Block, pos int)
		opts := &PrimaryOpts{
			BeforeBlock: func(c *Case, b *Block) {
				cur = c
				// requests reach a node at any time, also before the first block after a restart
				serveFn(c, b, -1)
			},
			AfterCommit: func(c *Case, b *Block, br *BlockResult) error {
				if generating && c.EndedBy == "" && pct(gs.t, 12, "restartAfter") {
					b.RestartAfter = true
				}
				if b.RestartAfter && c.EndedBy == "" {
					if _, perr := c.Sim.Restart(); perr != nil {
						return perr
					}
					reached["restarts"]++
				}
				return nil
			},
			BlockHooks: func(c *Case, b *Block) *BlockHooks {
				cur = c
				serve := func(pos int) { serveFn(c, b, pos) }
				return &BlockHooks{
					AfterBegin: func() { serve(0) },
					AfterEnd:   func() { serve(len(b.Txs) + 1) },
				}
			},
		}
		serveFn = func(c *Case, b *Block, pos int) {
			{
				if generating {
					rt := gs.t
					// ordinary valid transactions reach the mempool check as well (built against the state at block start)
					if len(gs.fresh) > 0 && pct(rt, 50, "checkFresh") {
						b.Inject = append(b.Inject, Injected{Pos: pos, Kind: "check", Tx: pick(rt, gs.fresh, "freshTx")})
					}
					// hostile CheckTx and Query calls, decided here and recorded for replay
					for i, n := 0, unif(rt, 3, "nHostile"); i < n; i++ {
						if pct(rt, 50, "hostileIsQuery") {
							q := hostileQuery(rt, c.W, gs.all)
							q.Pos = pos
							b.Inject = append(b.Inject, q)
						} else {
							raw, _ := hostileTx(rt, c.W, gs.all)
							b.Inject = append(b.Inject, Injected{Pos: pos, Kind: "check", Tx: raw})
						}
					}
				}
				for _, inj := range b.Inject {
					if inj.Pos != pos {
						continue
					}
					switch inj.Kind {
					case "check":
						r, perr := c.Sim.CheckTx(inj.Tx)
						if perr != nil {
							panic(perr)
						}
						if r.Code == 0 {
							reached["checktx_ok"]++
						}
					case "query":
						r, perr := c.Sim.Query(inj.Path, inj.Data, inj.Height)
						if perr != nil {
							panic(perr)
						}
						pl := inj.Path
						known := false
						for _, kp := range c09QueryPaths {
							known = known || kp == pl
						}
						if !known {
							pl = "(random path)"
						}
						if r.Code == 0 {
							reached["query_ok:"+pl]++
						} else {
							reached["query_err:"+pl]++
						}
					}
				}
			}
		}
		// hostile DeliverTx: replace part of the generated txs by hostile ones
		if generating {
			orig := gs.P.W
			_ = orig
			gs.hostileHook = func(w *World) ([]byte, string, bool) {
				share := 55
				if gs.P.IsAlt {
					share = 15 // the governance histories need their proposals to be voted through
				}
				if pct(gs.t, share, "hostileDeliver") {
					raw, note := hostileTx(gs.t, w, gs.all)
					return raw, note, true
				}
				return nil, "", false
			}
		}
		var c *Case
		var err error
		perr := guard("harness", func() { c, err = RunPrimary("C09", src, opts) })
		if perr != nil {
			// a panic surfaced through an injected call
			c = cur
			if pe, ok := perr.Val.(*PanicError); ok {
				err = pe
			} else {
				panic(perr.Val)
			}
		}
		out := &Outcome{Case: c}
		if err != nil {
			if pe, isPanic := err.(*PanicError); isPanic {
				if c != nil {
					c.Panic = pe
				}
				out.Err = violationf("the application panicked: %v\n%s", pe, trunc(pe.Stack, 1500))
				return out
			}
			out.Err = err
			return out
		}
		// afterwards the node is still usable: a canned valid transfer succeeds and the block commits
		if c.EndedBy == "" {
			a := actorNamed("U0")
			if len(c.Hist.Genesis.Users) > 0 {
				tx := &ctypes.Trx{Version: 1, Time: 1, Nonce: c.W.acct(a.Addr).Nonce, From: a.Addr, To: actorNamed("V0").Addr, Amount: u256(0),
					Gas: c.W.Params.MinTrxGas, GasPrice: c.W.Params.gasPrice(), Type: ctypes.TRX_TRANSFER, Payload: &ctypes.TrxPayloadAssetTransfer{}}
				signTrx(a, tx, c.W.ChainID)
				fee, overflow := new(uint256.Int).MulOverflow(u256(tx.Gas), tx.GasPrice)
				// (gas rules voted in by the validators may leave no admissible transaction at all - a minimum gas above the
				// maximum or above 2^63, a fee nobody can pay; that is a decision of the governance, not a node that stopped
				// working: then the block with the transfer must still be processed and committed, whatever the tx result)
				g, q := c.Hist.Genesis.Params, c.W.Params
				gasRulesAsAtGenesis := q.MinTrxGas == g.MinTrxGas && q.MaxTrxGas == g.MaxTrxGas && q.MaxBlockGas == g.MaxBlockGas && q.gasPrice().Eq(g.gasPrice())
				if !overflow && c.W.acct(a.Addr).Bal.Cmp(fee) >= 0 {
					b := &Block{Txs: [][]byte{encodeTrx(tx)}}
					br, perr := c.Sim.RunBlock(b, nil)
					if perr != nil {
						out.Err = violationf("node unusable after the history: %v", perr)
						return out
					}
					if br.Txs[0].Code != 0 && gasRulesAsAtGenesis {
						out.Err = violationf("node unusable after the history: canned transfer rejected: %s", br.Txs[0].Log)
						return out
					}
					if br.Txs[0].Code != 0 {
						st.label("canned_transfer_rejected_under_voted_gas_rules", 1)
					}
				}
			}
		}
		nReached := 0
		for _, outs := range c.Outcomes {
			for _, o := range outs {
				if o.Decoded && (o.OK || o.Late) {
					nReached++
				}
			}
		}
		for k, v := range reached {
			st.label(k, v)
		}
		st.label("deliver_reached_controller", nReached)
		out.Nontrivial = nReached > 0
		out.Shape = c.shape()
		return out
	})
}
