//go:build verif

package harness

import (
	"bytes"
	"encoding/json"
	"fmt"
	"os"
	"testing"
	"time"
)

type vmCallResult struct {
	UsedGas    flexInt `json:"usedGas"`
	ReturnData []byte  `json:"returnData"`
	Err        string  `json:"vmErr"`
}

// C17: contract execution is standard EVM semantics over the native account ledger.
func TestC17(t *testing.T) {
	sp := &chainSpec{prop: "C17",
		profile: func() *Profile {
			p := defaultProfile()
			p.MinBlocks, p.MaxBlocks = 6, 22
			p.MaxTxs = 7
			p.W = map[string]int{"deployp": 16, "callp": 40, "transferc": 8, "transfer": 12, "stake": 5, "unstake": 3, "withdraw": 4, "setdoc": 1, "replay": 2, "propose": 1, "vote": 1}
			p.PFault = 6
			p.PEvidence, p.PAbsent = 2, 2
			p.VaryGas = true
			p.BlockGasBoundary = true
			p.LiveInject = true
			return p
		},
		compare: func(c *Case, a *AppState, b *Block, br *BlockResult) {
			if c.W.evmDiverged {
				return
			}
			c.W.CompareAccounts(a, "C17", true, true, nil)
			c.W.CompareEVM(c.Sim, br.Height)
			// native code marker of top-level deployments
			for k, m := range c.W.Accts {
				if m.Code != nil && !c.W.Dead[k] {
					if got, ok := a.Accts[k]; !ok || !bytes.Equal(got.Code, m.Code) {
						c.W.fail("C17", "contract account %s: native code marker %x, expected the deploying tx hash %x", k[:8], codeOf(a, k), m.Code)
					}
				}
			}
		},
		nontrivial: func(c *Case) (bool, string) {
			ks := []string{"evm_tx_compared", "evm_ref_failed", "inner_create", "evm_logs", "contract_selfdestructed", "child_selfdestructed", "evm_burn", "ok_transfer_to_contract", "vm_call_compared"}
			mixed := feat(c, "ok_call", "ok_deploy") > 0 && feat(c, "ok_transfer", "ok_selfstake", "ok_delegate", "ok_withdraw") > 0
			return feat(c, "ok_call") > 0 && mixed, featShape(c, ks...)
		},
	}
	runCheck(t, sp.prop, sp.profile(), func(src Source, st *Stats) *Outcome {
		var prevApp *AppState
		gs, generating := src.(*GenSource)
		tStart := time.Now()
		var tCompare, tVM time.Duration
		defer func() {
			if os.Getenv("VERIF_TIMING") != "" {
				fmt.Printf("C17 case: total %v compare %v vmcall %v %v\n", time.Since(tStart), tCompare, tVM, tmAcc)
				tmAcc = map[string]time.Duration{}
			}
		}()
		c, err := RunPrimary(sp.prop, src, &PrimaryOpts{
			BeforeBlock: func(c *Case, b *Block) {
				if c.W.EVM == nil {
					c.W.EVM = NewEVMRef()
					c.W.EVM.syncIn(c.W, c.W.EVM.db)
					c.W.EVM.EndBlock(0)
				}
				// read-only calls between blocks, at the latest or a recent height
				tv := time.Now()
				defer func() { tVM += time.Since(tv) }()
				if c.Sim.H >= 1 {
					if generating {
						// pending mempool transactions of the accounts the read-only calls may look at
						for i, n := 0, unif(gs.t, 3, "nPending"); i < n && len(gs.fresh) > 0 && len(c.W.Contracts) > 0; i++ {
							b.Inject = append(b.Inject, Injected{Pos: -1, Kind: "check", Tx: pick(gs.t, gs.fresh, "pendingTx")})
						}
						for i, n := 0, unif(gs.t, 3, "nVmCalls"); i < n && len(c.W.Contracts) > 0; i++ {
							to := unhx(pick(gs.t, sortedKeys(c.W.Contracts), "vmTo"))
							from := pick(gs.t, gs.all, "vmFrom").Addr
							data := append(append(append([]byte{}, from...), to...), gs.genCalldata(c.W)...)
							hh := c.Sim.H - int64(unif(gs.t, 3, "vmAge"))
							if hh < 1 || pct(gs.t, 30, "vmLatest") {
								hh = 0
							}
							b.Inject = append(b.Inject, Injected{Pos: -1, Kind: "query", Path: "vm_call", Data: data, Height: hh})
						}
					}
					for _, inj := range b.Inject {
						if inj.Pos == -1 && inj.Kind == "check" {
							if r, perr := c.Sim.CheckTx(inj.Tx); perr == nil && r.Code == 0 {
								c.W.Feat["vm_call_with_pending_mempool_tx"]++
							}
							continue
						}
						if inj.Pos != -1 || inj.Path != "vm_call" || len(inj.Data) < 40 {
							continue
						}
						r, perr := c.Sim.Query("vm_call", inj.Data, inj.Height)
						if perr != nil {
							c.W.fail("C17", "vm_call panicked: %v", perr)
							continue
						}
						hh := inj.Height
						if hh == 0 {
							hh = c.Sim.H
						}
						ref, rerr := c.W.EVM.Call(inj.Data[:20], inj.Data[20:40], inj.Data[40:], hh)
						if rerr != nil {
							if r.Code == 0 {
								c.W.fail("C17", "vm_call at height %d answers, reference call is impossible: %v", hh, rerr)
							}
							continue
						}
						if r.Code != 0 {
							c.W.fail("C17", "vm_call at height %d fails (%s), reference returns %x", hh, trunc(r.Log, 120), ref.Ret)
							continue
						}
						var got vmCallResult
						if json.Unmarshal(r.Value, &got) != nil {
							c.W.fail("C17", "vm_call answer unparsable: %s", r.Value)
							continue
						}
						c.W.Feat["vm_call_compared"]++
						if !bytes.Equal(got.ReturnData, ref.Ret) || uint64(got.UsedGas) != ref.GasUsed || (got.Err != "") != ref.Failed {
							c.W.fail("C17", "vm_call at height %d: (ret=%x gas=%d err=%q), reference (ret=%x gas=%d err=%q)", hh, got.ReturnData, got.UsedGas, got.Err, ref.Ret, ref.GasUsed, ref.Err)
						}
					}
				}
			},
			AfterCommit: func(c *Case, b *Block, br *BlockResult) error {
				tc := time.Now()
				defer func() { tCompare += time.Since(tc) }()
				a, perr := readAppState(c.Sim)
				if perr != nil {
					return perr
				}
				a.Prev = prevApp
				if prevApp != nil {
					prevApp.Prev = nil
				}
				prevApp = a
				sp.compare(c, a, b, br)
				if vs := c.W.violationsOf("C17"); len(vs) > 0 {
					msg := vs[0].Msg
					if len(vs) > 1 {
						msg += fmt.Sprintf(" (+%d more: %s)", len(vs)-1, trunc(vs[1].Msg, 300))
					}
					return violationf("%s", msg)
				}
				return nil
			},
		})
		out := &Outcome{Case: c}
		if err != nil {
			if _, isPanic := err.(*PanicError); isPanic {
				return out
			}
			out.Err = err
			return out
		}
		// a read-only call never changes state: a quiet twin (no vm_call) commits the same hashes
		sb, resB, rerr := runReplica(c.Hist, nil, nil)
		defer sb.Close(true)
		if rerr != nil {
			out.Err = violationf("quiet replica failed: %v", rerr)
			return out
		}
		for i := range c.Results {
			if d := diffBlock(c.Results[i], resB[i]); d != "" {
				out.Err = violationf("replica that served vm_call queries diverges from the quiet one: %s", d)
				return out
			}
		}
		nt, extra := sp.nontrivial(c)
		out.Nontrivial = nt
		out.Shape = c.shape() + "|" + extra
		return out
	})
}

func codeOf(a *AppState, k string) []byte {
	if x, ok := a.Accts[k]; ok {
		return x.Code
	}
	return nil
}
