//go:build verif

package harness

import (
	"bytes"
	"testing"

	"pgregory.net/rapid"
)

// C07 Restart equivalence: a replica restarted at generated block boundaries reports the
// last commit and afterwards behaves exactly like the replica that kept running.
func TestC07(t *testing.T) {
	p := defaultProfile()
	p.MinBlocks, p.MaxBlocks = 8, 30
	p.Alt, p.PAlt = govHeavyProfile(), 45
	p.W["deployp"], p.W["callp"] = 4, 10
	p.PowerTies = true
	p.Alt.PowerTies = true
	p.Alt.GovFocus = "maxValidatorCnt,gasPrice,minTrxGas"
	p.Alt.GasFaults = true
	runCheck(t, "C07", p, func(src Source, st *Stats) *Outcome {
		if gs, ok := src.(*GenSource); ok {
			gs.OnEndBlock = func(w *World, b *Block) {
				rt := gs.t
				interesting := len(w.delegOps) > 0 || w.Feat["jailed_this_block"] > 0 || len(w.pendingCandidates) > 0 || (w.curH%10 == 0)
				if interesting {
					b.RestartAfter = pct(rt, 70, "restartInteresting")
				} else {
					b.RestartAfter = pct(rt, 20, "restart")
				}
			}
			_ = rapid.Bool
		}
		c, err := RunPrimary("C07", src, nil)
		out := &Outcome{Case: c}
		if err != nil {
			if _, isPanic := err.(*PanicError); isPanic {
				return out
			}
			out.Err = err
			return out
		}
		restarts, kinds := 0, map[string]bool{}
		sb, _, rerr := runReplica(c.Hist, nil, func(s *Sim, bi int, b *Block, br *BlockResult) error {
			if d := diffBlock(c.Results[bi], br); d != "" {
				return violationf("restarted replica diverges from the continuous one (restarts so far: %d): %s", restarts, d)
			}
			if b.RestartAfter {
				info, perr := s.Restart()
				if perr != nil {
					return violationf("restart after block %d panicked: %v", br.Height, perr)
				}
				restarts++
				if info.LastBlockHeight != br.Height || !bytes.Equal(info.LastBlockAppHash, br.AppHash) {
					return violationf("after restart Info reports height %d hash %x, last commit was %d %x", info.LastBlockHeight, info.LastBlockAppHash, br.Height, br.AppHash)
				}
				// what does the next block depend on?
				if bi+1 < len(c.Outcomes) {
					for _, o := range c.Outcomes[bi+1] {
						if o.OK {
							kinds["next_ok_"+txTypeName(o.Type)] = true
						} else if o.Late {
							kinds["next_latefail_"+txTypeName(o.Type)] = true
						}
					}
					if len(c.Results[bi+1].ValUpdates) > 0 {
						kinds["next_valset_change"] = true
					}
					if len(c.Hist.Blocks[bi+1].Votes) > 0 {
						kinds["next_reward_round"] = true
					}
				}
			}
			return nil
		})
		defer sb.Close(true)
		if rerr != nil {
			if v, ok := rerr.(*ViolationError); ok {
				out.Err = v
			} else {
				out.Err = violationf("restarted replica failed where the continuous one did not: %v", rerr)
			}
			return out
		}
		for k := range kinds {
			st.label("after_restart:"+k, 1)
		}
		st.label("restarts", restarts)
		out.Nontrivial = restarts > 0 && (kinds["next_ok_proposal"] || kinds["next_ok_staking"] || kinds["next_ok_unstaking"] || kinds["next_valset_change"] || kinds["next_ok_contract"] || kinds["next_latefail_staking"])
		out.Shape = c.shape() + restartShape(c.Hist)
		return out
	})
}

func restartShape(h *History) string {
	s := "|R"
	for i, b := range h.Blocks {
		if b.RestartAfter {
			s += string(rune('a' + i%26))
		}
	}
	return s
}
