//go:build verif

package harness

import (
	"bytes"
	"crypto/sha256"
	"fmt"
	"os"
	"sort"

	ethcrypto "github.com/ethereum/go-ethereum/crypto"
	"github.com/holiman/uint256"
	ctypes "github.com/rigochain/rigo-go/ctrlers/types"
	rcrypto "github.com/rigochain/rigo-go/types/crypto"
	tmtypes "github.com/tendermint/tendermint/types"
)

// ---------------------------------------------------------------------------
// Reference model of the chain state ("World").
//
// It is a conformance checker (DESIGN 2.4): the observed DeliverTx code is an
// input; for code 0 the necessary conditions stated by the properties are
// asserted and the specified effect is applied; for code != 0 nothing changes.
// Block-level rules (slashing, rewards, jailing, refunds, fee credit,
// governance, validator updates) are predicted by the model.
// ---------------------------------------------------------------------------

type MAcct struct {
	Bal   *uint256.Int
	Nonce uint64
	Name  string
	Doc   string
	Code  []byte
}

type MStake struct {
	Owner   []byte
	To      []byte
	TxHash  []byte
	Power   int64
	Start   int64
	Refund  int64 // 0 while bonded
	Genesis bool
	// bookkeeping for C12
	ReleasedAt   int64
	PeriodAtRel  int64
	CommittedUnb bool // visible in the committed unbonding ledger
}

func (s *MStake) clone() *MStake { c := *s; return &c }

type MDeleg struct {
	Addr      []byte
	Pub       []byte
	Stakes    []*MStake
	NotSigned []int64
}

func (d *MDeleg) total() int64 {
	t := int64(0)
	for _, s := range d.Stakes {
		t += s.Power
	}
	return t
}

func (d *MDeleg) self() int64 {
	t := int64(0)
	for _, s := range d.Stakes {
		if bytes.Equal(s.Owner, d.Addr) {
			t += s.Power
		}
	}
	return t
}

func (d *MDeleg) clone() *MDeleg {
	c := &MDeleg{Addr: d.Addr, Pub: d.Pub, NotSigned: append([]int64(nil), d.NotSigned...)}
	for _, s := range d.Stakes {
		c.Stakes = append(c.Stakes, s.clone())
	}
	return c
}

type MReward struct {
	Cum       *uint256.Int
	Issued    *uint256.Int
	Withdrawn *uint256.Int
	Height    int64
}

type MVoter struct {
	Power  int64
	Choice int32
}

type MProposal struct {
	TxHash   []byte
	Start    int64
	End      int64
	Apply    int64
	Total    int64
	Majority int64
	Voters   map[string]*MVoter
	Options  [][]byte
	Votes    []int64
	OptType  int32
	Major    int // index of the winning option when frozen, else -1
	// committed flags: the app iterates the *committed* tree at block end
	CommittedOpen   bool
	CommittedFrozen bool
	SubmitHeight    int64
	proposer        []byte
	earlyVotes      []earlyVote
}

type Violation struct {
	Prop string
	Msg  string
}

type World struct {
	// senders of contract-path txs that failed on the node although the reference EVM executed them (count)
	refOKButFailed map[string]int
	G              *Genesis
	ChainID        string
	H              int64 // last committed height
	Params         *Params
	pending        *Params

	Accts     map[string]*MAcct
	Delegs    map[string]*MDeleg
	Unbonding map[string]*MStake // key = txhash hex
	Rewards   map[string]*MReward
	Open      map[string]*MProposal
	Frozen    map[string]*MProposal

	// delegatee book as committed by block h (deep copies), for the reward lag
	delegAt map[int64]map[string]*MDeleg
	// what the application last reported to consensus (address hex -> entry)
	Reported map[string]SetEntry

	TM *TMVals

	// per block scratch
	cur         *Block
	curH        int64
	feeSum      *uint256.Int
	blockStartD map[string]*MDeleg // committed delegatees at BeginBlock (== delegAt[h-1])
	issuedBlock *uint256.Int

	// accounting for C02
	GenesisTotal *uint256.Int
	Withdrawn    *uint256.Int
	Slashed      *uint256.Int
	LostFees     *uint256.Int

	everProposals map[string]bool
	// every successful tx hash, for "at most once"
	succeeded map[string]int64

	// known contracts deployed from the fixed templates
	Contracts map[string]string // addr hex -> template

	Viol []Violation

	// precondition misses (guards owned by other properties)
	PreMiss map[string]int

	// feature counters (for labels / non-triviality)
	Feat map[string]int

	// exclusions by known findings (counted)
	Excluded map[string]int

	// governance: parameter sets that may become active at this block's commit
	pendingCandidates []*Params
	pendingAmbiguous  bool
	pendingUnparsable bool
	newProposals      []*MProposal
	refundedNow       []*MStake
	jailedNow         [][]byte

	// per-block feature bookkeeping
	delegDeletedThisBlock map[string]bool
	delegOps              map[string]int
	withdrawsThisBlock    map[string]int

	// why the model changed an account's balance in the current block (cause tags)
	balCause map[string]map[string]bool
	balStart map[string]*uint256.Int // model balances when the current block began

	// C17: reference EVM world (nil in the other checks)
	EVM         *EVMRef
	Dead        map[string]bool // ex-contracts (self-destructed): still addressable; the native code marker the application keeps for them is not compared
	txIdx       int
	evmDiverged bool

	// PeekDelegatee lets the model look at the application's uncommitted consensus view
	// (only used where the property leaves the rule open, see the jailing window)
	PeekDelegatee func(addr []byte) bool

	// reference validator selection for set(h+2), keyed by h
	Expected map[int64]map[string]SetEntry
	// parameters that were active while block h executed
	ParamsAt map[int64]*Params
}

type earlyVote struct {
	From   []byte
	Choice int32
}

func ak(addr []byte) string { return hx(addr) }

func NewWorld(g *Genesis) *World {
	w := &World{
		G: g, ChainID: g.ChainID, Params: g.Params.clone(),
		Accts: map[string]*MAcct{}, Delegs: map[string]*MDeleg{}, Unbonding: map[string]*MStake{},
		Rewards: map[string]*MReward{}, Open: map[string]*MProposal{}, Frozen: map[string]*MProposal{},
		delegAt: map[int64]map[string]*MDeleg{}, Reported: map[string]SetEntry{},
		GenesisTotal: u256(0), Withdrawn: u256(0), Slashed: u256(0), LostFees: u256(0),
		succeeded: map[string]int64{}, Contracts: map[string]string{}, everProposals: map[string]bool{},
		PreMiss: map[string]int{}, Feat: map[string]int{}, Excluded: map[string]int{},
		Expected: map[int64]map[string]SetEntry{}, ParamsAt: map[int64]*Params{}, Dead: map[string]bool{},
	}
	for _, b := range g.Balances {
		a := w.acct(actorNamed(b.Actor).Addr)
		a.Bal = u256dec(b.Balance)
		w.GenesisTotal.Add(w.GenesisTotal, a.Bal)
	}
	for i, v := range g.Validators {
		ac := actorNamed(v.Actor)
		w.acct(ac.Addr)
		d := &MDeleg{Addr: ac.Addr, Pub: ac.Pub}
		d.Stakes = append(d.Stakes, &MStake{Owner: ac.Addr, To: ac.Addr, TxHash: genesisStakeID(i, ac), Power: v.Power, Start: 1, Genesis: true})
		w.Delegs[ak(ac.Addr)] = d
		w.GenesisTotal.Add(w.GenesisTotal, powerToAmount(v.Power))
	}
	w.TM = newTMVals(g)
	w.delegAt[0] = w.cloneDelegs()
	return w
}

// genesisStakeID: a genesis stake has no staking tx; its id is the hash of the validator's public key.
func genesisStakeID(i int, a *Actor) []byte { return sha(a.Pub) }

func (w *World) cloneDelegs() map[string]*MDeleg {
	m := map[string]*MDeleg{}
	for k, d := range w.Delegs {
		m[k] = d.clone()
	}
	return m
}

func (w *World) acct(addr []byte) *MAcct {
	k := ak(addr)
	a, ok := w.Accts[k]
	if !ok {
		a = &MAcct{Bal: u256(0)}
		w.Accts[k] = a
	}
	return a
}

func (w *World) cause(addr []byte, c string) {
	if w.balCause == nil {
		w.txIdx = 0
		if w.EVM != nil {
			w.EVM.BeginBlock()
		}
		w.balCause = map[string]map[string]bool{}
		w.balStart = map[string]*uint256.Int{}
		for k, a := range w.Accts {
			w.balStart[k] = a.Bal.Clone()
		}
	}
	m := w.balCause[ak(addr)]
	if m == nil {
		m = map[string]bool{}
		w.balCause[ak(addr)] = m
	}
	m[c] = true
}

func (w *World) hasAcct(addr []byte) bool { _, ok := w.Accts[ak(addr)]; return ok }

func (w *World) fail(prop, format string, args ...interface{}) {
	w.Viol = append(w.Viol, Violation{Prop: prop, Msg: fmt.Sprintf("h=%d: ", w.curH) + fmt.Sprintf(format, args...)})
}

func (w *World) violationsOf(props ...string) []Violation {
	var out []Violation
	for _, v := range w.Viol {
		for _, p := range props {
			if v.Prop == p {
				out = append(out, v)
			}
		}
	}
	return out
}

func (w *World) isReported(addr []byte) bool { _, ok := w.Reported[ak(addr)]; return ok }

// ---------------------------------------------------------------------------
// signature check, independent of the application's verifier
// ---------------------------------------------------------------------------

func sigRecovers(tx *ctypes.Trx, chainID string) bool {
	if len(tx.Sig) != 65 {
		return false
	}
	pre, xerr := ctypes.PreImageToSignTrxRLP(tx, chainID)
	if xerr != nil {
		return false
	}
	h := sha256.Sum256(pre)
	pub, err := ethcrypto.SigToPub(h[:], tx.Sig)
	if err != nil {
		return false
	}
	return bytes.Equal(rcrypto.Pub2Addr(pub), tx.From)
}

// ---------------------------------------------------------------------------
// block life cycle
// ---------------------------------------------------------------------------

// BeginBlock applies the block-start rules (punish, reward, jail) to the model.
func (w *World) BeginBlock(b *Block) {
	h := w.H + 1
	w.cur, w.curH = b, h
	w.feeSum = u256(0)
	w.issuedBlock = u256(0)
	w.blockStartD = w.delegAt[h-1]
	w.delegDeletedThisBlock, w.delegOps, w.withdrawsThisBlock = nil, nil, nil
	w.txIdx = 0
	if w.EVM != nil {
		w.EVM.BeginBlock()
	}
	w.balCause = map[string]map[string]bool{}
	w.balStart = map[string]*uint256.Int{}
	for k, a := range w.Accts {
		w.balStart[k] = a.Bal.Clone()
	}
	w.pendingCandidates, w.pendingAmbiguous, w.pendingUnparsable, w.newProposals = nil, false, false, nil
	w.refundedNow, w.jailedNow = nil, nil
	p := w.Params
	w.ParamsAt[h] = p.clone()
	delete(w.ParamsAt, h-8)

	// --- evidence: governance voters first, then stakes (order inside the app) ---
	for _, e := range b.Evidence {
		for _, k := range sortedKeys(w.Open) {
			pr := w.Open[k]
			if !pr.CommittedOpen || pr.End < h {
				// voting already closed: the proposal is tallied at the end of this block; it is not "open" any more
				continue
			}
			v, ok := pr.Voters[ak(e.Addr)]
			if !ok {
				continue
			}
			choice := v.Choice
			if choice >= 0 {
				pr.Votes[choice] -= v.Power
				v.Choice = -1
			}
			sl := mulDiv(v.Power, p.SlashRatio, 100)
			v.Power -= sl
			if v.Power <= 0 {
				delete(pr.Voters, ak(e.Addr))
			} else if choice >= 0 {
				pr.Votes[choice] += v.Power
				v.Choice = choice
			}
			pr.Total -= sl
			pr.Majority = (pr.Total * 2) / 3
			w.Feat["evidence_hits_voter"]++
		}
	}
	for _, e := range b.Evidence {
		d, ok := w.Delegs[ak(e.Addr)]
		if !ok {
			w.Feat["evidence_unknown"]++
			continue
		}
		w.Feat["evidence_hits_delegatee"]++
		if len(d.Stakes) > 1 {
			w.Feat["evidence_hits_delegators"]++
		}
		var keep []*MStake
		for _, s := range d.Stakes {
			sl := (s.Power * p.SlashRatio) / 100
			if sl < 1 {
				// too small to be reduced: forfeited
				w.Slashed.Add(w.Slashed, powerToAmount(s.Power))
				w.Feat["stake_forfeited"]++
				continue
			}
			s.Power -= sl
			w.Slashed.Add(w.Slashed, powerToAmount(sl))
			keep = append(keep, s)
		}
		d.Stakes = keep
	}

	if len(b.Votes) == 0 {
		return
	}

	// --- rewards and missed-signature accounting ---
	hp := h - 4
	var payBook map[string]*MDeleg
	if hp >= 1 {
		payBook = w.delegAt[hp]
	} else {
		// chain start: consensus derived the voting power from the genesis state
		payBook = w.delegAt[0]
	}
	for _, v := range b.Votes {
		if v.Signed {
			d, ok := payBook[ak(v.Addr)]
			if !ok {
				w.PreMiss["C13:signer_not_in_paying_book"]++
				continue
			}
			if d.total() != v.Power {
				w.PreMiss["C13:vote_power_differs_from_paying_book"]++
				continue
			}
			for _, s := range d.Stakes {
				r := new(uint256.Int).Mul(u256(uint64(s.Power)), p.rewardPerPower())
				w.issue(s.Owner, r, h)
			}
			if len(d.Stakes) >= 2 {
				w.Feat["reward_round_multi_staker"]++
			}
			if cur, ok := w.Delegs[ak(v.Addr)]; !ok || !sameStakes(cur, d) {
				w.Feat["reward_lag_visible"]++
			}
		} else {
			d, ok := w.Delegs[ak(v.Addr)]
			if !ok {
				continue
			}
			signedH := h - 1
			if n := len(d.NotSigned); n == 0 || d.NotSigned[n-1] < signedH {
				d.NotSigned = append(d.NotSigned, signedH)
			}
			s0 := signedH - p.SignedBlocksWindow
			if s0 < 0 {
				s0 = 0
			}
			// The statement does not say whether the window holds W or W+1 heights.
			cntWide, cntNarrow := int64(0), int64(0) // [signedH-W, signedH] and [signedH-W+1, signedH]
			for _, x := range d.NotSigned {
				if x >= s0 && x <= signedH {
					cntWide++
				}
				if x > signedH-p.SignedBlocksWindow && x <= signedH {
					cntNarrow++
				}
			}
			// rewindow (the app drops heights before the window, keeping one)
			d.NotSigned = trimBefore(d.NotSigned, s0)
			jailWide := p.SignedBlocksWindow-cntWide < p.MinSignedBlocks
			jailNarrow := p.SignedBlocksWindow-cntNarrow < p.MinSignedBlocks
			jail := jailWide
			if jailWide != jailNarrow {
				w.Feat["jail_ambiguous"]++
				if w.PeekDelegatee != nil {
					jail = !w.PeekDelegatee(v.Addr)
				}
			}
			if jail {
				w.Feat["jailed"]++
				w.jailedNow = append(w.jailedNow, append([]byte(nil), v.Addr...))
				for _, s := range d.Stakes {
					w.release(s, h, p.LazyRewardBlocks)
				}
				d.Stakes = nil
				delete(w.Delegs, ak(v.Addr))
			}
		}
	}
}

// trimBefore mimics BlockMarker.CountInWindow(rewin=true): if more than one
// element precedes h0, everything up to the last such element is dropped.
func trimBefore(hs []int64, h0 int64) []int64 {
	pre := -1
	for i, x := range hs {
		if x < h0 {
			pre = i
		}
	}
	if pre > 0 {
		return append([]int64(nil), hs[pre+1:]...)
	}
	return hs
}

func sameStakes(a, b *MDeleg) bool {
	if len(a.Stakes) != len(b.Stakes) {
		return false
	}
	for i := range a.Stakes {
		if !bytes.Equal(a.Stakes[i].TxHash, b.Stakes[i].TxHash) || a.Stakes[i].Power != b.Stakes[i].Power {
			return false
		}
	}
	return true
}

func mulDiv(a, b, c int64) int64 {
	x := new(uint256.Int).Mul(u256(uint64(a)), u256(uint64(b)))
	x.Div(x, u256(uint64(c)))
	return int64(x.Uint64())
}

func (w *World) issue(owner []byte, r *uint256.Int, h int64) {
	rw, ok := w.Rewards[ak(owner)]
	if !ok {
		rw = &MReward{Cum: u256(0), Issued: u256(0), Withdrawn: u256(0)}
		w.Rewards[ak(owner)] = rw
	}
	if rw.Height < h {
		rw.Issued = r.Clone()
		rw.Height = h
	} else {
		rw.Issued.Add(rw.Issued, r)
	}
	rw.Cum.Add(rw.Cum, r)
	w.issuedBlock.Add(w.issuedBlock, r)
}

func (w *World) release(s *MStake, h int64, period int64) {
	s.Refund = h + period
	s.ReleasedAt = h
	s.PeriodAtRel = period
	s.CommittedUnb = false
	w.Unbonding[unbKey(s)] = s
}

func unbKey(s *MStake) string { return hx(s.TxHash) + "/" + hx(s.To) }

// EndBlock applies block-end rules and returns the predicted validator updates' resulting
// reported set (the caller compares with the observed updates).
func (w *World) EndBlock(res *BlockResult) {
	h := w.curH
	b := w.cur
	p := w.Params

	// --- governance: freeze, then apply (both iterate the committed trees) ---
	for _, k := range sortedKeys(w.Open) {
		pr := w.Open[k]
		if !pr.CommittedOpen || pr.End >= h {
			continue
		}
		delete(w.Open, k)
		best, bestVotes := -1, int64(-1)
		for i, v := range pr.Votes {
			if v > bestVotes {
				best, bestVotes = i, v
			}
		}
		if best >= 0 && bestVotes >= pr.Majority {
			pr.Major = best
			pr.CommittedFrozen = false
			w.Frozen[k] = pr
			w.Feat["proposal_frozen"]++
			// is the winner unique? (ties at the top are resolved by an unstable sort)
			for i, v := range pr.Votes {
				if i != best && v == bestVotes {
					pr.Major = -2 // ambiguous
				}
			}
		} else {
			w.Feat["proposal_removed"]++
		}
	}
	var applied []*MProposal
	for _, k := range sortedKeys(w.Frozen) {
		pr := w.Frozen[k]
		if !pr.CommittedFrozen || pr.Apply > h {
			continue
		}
		delete(w.Frozen, k)
		applied = append(applied, pr)
	}
	w.applyProposals(applied)

	// --- fees to the proposer ---
	if w.feeSum.Sign() > 0 {
		if b.Proposer != nil {
			a := w.acct(b.Proposer)
			a.Bal.Add(a.Bal, w.feeSum)
			w.cause(b.Proposer, "proposer")
		} else {
			w.LostFees.Add(w.LostFees, w.feeSum)
			w.Feat["fees_without_proposer"]++
		}
	}

	// --- refunds of matured unbonding stakes (committed ones only) ---
	matured := 0
	for _, k := range sortedKeys(w.Unbonding) {
		s := w.Unbonding[k]
		if !s.CommittedUnb || s.Refund > h {
			continue
		}
		a := w.acct(s.Owner)
		a.Bal.Add(a.Bal, powerToAmount(s.Power))
		w.cause(s.Owner, "refund")
		w.refundedNow = append(w.refundedNow, s)
		delete(w.Unbonding, k)
		matured++
		w.Feat["refund"]++
		if s.PeriodAtRel != w.Params.LazyRewardBlocks {
			w.Feat["refund_after_period_change"]++
		}
	}
	if matured >= 2 {
		w.Feat["refund_multi_same_block"]++
	}

	// --- validator selection from the book committed by block h-1 ---
	w.Expected[h] = w.selectValidators(w.blockStartD, p)
	delete(w.Expected, h-8)
	_ = res
}

func (w *World) applyProposals(applied []*MProposal) {
	if len(applied) == 0 {
		return
	}
	w.Feat["proposal_applied"] += len(applied)
	for _, pr := range applied {
		if pr.Major >= 0 && pr.Major < len(pr.Options) {
			for _, d := range hostileDocs {
				if d == string(pr.Options[pr.Major]) {
					w.Feat["hostile_option_document_applied"]++
					if os.Getenv("VERIF_DOC_STATS") != "" {
						w.Feat["hostile_applied:"+d]++
					}
					break
				}
			}
		}
	}
	// The statement does not order several proposals applied in one block.
	// Candidates: every fold order of the merges, and "one of them over the old set".
	// The model keeps the list; Compare picks whichever matches (and fails if none).
	w.pendingCandidates = nil
	var opts []*Params
	for _, pr := range applied {
		if pr.OptType != 0x0101 {
			continue
		}
		if pr.Major < 0 {
			// ambiguous winner: accept any top option
			w.pendingAmbiguous = true
			continue
		}
		o, err := parseOption(pr.Options[pr.Major])
		if err != nil {
			w.pendingUnparsable = true
			continue
		}
		opts = append(opts, o)
	}
	if len(opts) == 0 {
		return
	}
	for _, o := range opts {
		w.pendingCandidates = append(w.pendingCandidates, mergeParams(w.Params, o))
	}
	if len(opts) > 1 {
		w.Feat["multi_apply_same_block"]++
		permute(len(opts), func(idx []int) {
			cur := w.Params
			for _, i := range idx {
				cur = mergeParams(cur, opts[i])
			}
			w.pendingCandidates = append(w.pendingCandidates, cur)
		})
	}
}

func permute(n int, f func([]int)) {
	idx := make([]int, n)
	for i := range idx {
		idx[i] = i
	}
	var rec func(k int)
	rec = func(k int) {
		if k == n {
			f(idx)
			return
		}
		for i := k; i < n; i++ {
			idx[k], idx[i] = idx[i], idx[k]
			rec(k + 1)
			idx[k], idx[i] = idx[i], idx[k]
		}
	}
	if n <= 4 {
		rec(0)
	} else {
		f(idx)
	}
}

func parseOption(doc []byte) (*Params, error) {
	// same dialect as the application (tendermint JSON)
	g := &ctypes.GovParams{}
	if err := tmjsonUnmarshal(doc, g); err != nil {
		return nil, err
	}
	return paramsFromGovLoose(g), nil
}

// selectValidators: candidates are delegatees whose own power >= minimum, ordered by
// total power (ties: more stakes first, then larger address), truncated to max.
func (w *World) selectValidators(book map[string]*MDeleg, p *Params) map[string]SetEntry {
	type cand struct {
		d *MDeleg
		t int64
	}
	var cs []cand
	for _, d := range book {
		if d.self() >= p.minValidatorPower() {
			cs = append(cs, cand{d, d.total()})
		}
	}
	sort.Slice(cs, func(i, j int) bool {
		if cs[i].t != cs[j].t {
			return cs[i].t > cs[j].t
		}
		if len(cs[i].d.Stakes) != len(cs[j].d.Stakes) {
			return len(cs[i].d.Stakes) > len(cs[j].d.Stakes)
		}
		return bytes.Compare(cs[i].d.Addr, cs[j].d.Addr) > 0
	})
	n := int(p.MaxValidatorCnt)
	if n > len(cs) {
		n = len(cs)
	}
	if n < 0 {
		n = 0
	}
	out := map[string]SetEntry{}
	for _, c := range cs[:n] {
		out[ak(c.d.Addr)] = SetEntry{Addr: c.d.Addr, Pub: c.d.Pub, Power: c.t}
	}
	return out
}

// Commit finishes the block in the model.
func (w *World) Commit() {
	h := w.curH
	w.H = h
	w.delegAt[h] = w.cloneDelegs()
	delete(w.delegAt, h-8)
	for _, s := range w.Unbonding {
		s.CommittedUnb = true
	}
	for _, pr := range w.Open {
		pr.CommittedOpen = true
	}
	for _, pr := range w.Frozen {
		pr.CommittedFrozen = true
	}
	if w.EVM != nil {
		w.EVM.syncIn(w, w.EVM.db)
		w.EVM.EndBlock(h)
	}
	w.cur = nil
}

var _ = tmtypes.MaxTotalVotingPower
