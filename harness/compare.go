//go:build verif

package harness

import (
	"bytes"
	"encoding/json"
	"fmt"
	"math/big"
	"sort"
	"strconv"
	"strings"

	"github.com/holiman/uint256"
	"github.com/rigochain/rigo-go/ctrlers/stake"
	ctypes "github.com/rigochain/rigo-go/ctrlers/types"
)

// AppState is a snapshot of the committed application state read through the accessors.
type AppState struct {
	Prev      *AppState // state committed by the previous block (nil for the first block)
	Accts     map[string]*MAcct
	Delegs    map[string]*appDeleg
	Unbonding []*MStake
	Rewards   map[string]*MReward
}

type appDeleg struct {
	Addr, Pub   []byte
	Self, Total int64
	Stakes      []*MStake
	NotSigned   []int64
}

func readAppState(s *Sim) (st *AppState, perr *PanicError) {
	st = &AppState{Accts: map[string]*MAcct{}, Delegs: map[string]*appDeleg{}, Rewards: map[string]*MReward{}}
	perr = guard("readAppState", func() {
		app := s.App
		_ = app.VerifAcct().VerifIterAccounts(func(a *ctypes.Account) {
			st.Accts[ak(a.Address)] = &MAcct{Bal: a.Balance.Clone(), Nonce: a.Nonce, Name: a.Name, Doc: a.DocURL, Code: append([]byte(nil), a.Code...)}
		})
		_ = app.VerifStake().VerifIterDelegatees(func(d *stake.Delegatee) {
			ad := &appDeleg{Addr: append([]byte(nil), d.Addr...), Pub: append([]byte(nil), d.PubKey...), Self: d.SelfPower, Total: d.TotalPower}
			for _, x := range d.Stakes {
				ad.Stakes = append(ad.Stakes, &MStake{Owner: append([]byte(nil), x.From...), To: append([]byte(nil), x.To...), TxHash: append([]byte(nil), x.TxHash...), Power: x.Power, Start: x.StartHeight, Refund: x.RefundHeight})
			}
			if d.NotSignedHeights != nil {
				ad.NotSigned = append(ad.NotSigned, d.NotSignedHeights.BlockHeights...)
			}
			st.Delegs[ak(d.Addr)] = ad
		})
		for _, x := range app.VerifStake().ReadFrozenStakes() {
			st.Unbonding = append(st.Unbonding, &MStake{Owner: append([]byte(nil), x.From...), To: append([]byte(nil), x.To...), TxHash: append([]byte(nil), x.TxHash...), Power: x.Power, Start: x.StartHeight, Refund: x.RefundHeight})
		}
		_ = app.VerifStake().VerifIterRewards(func(r *stake.Reward) {
			st.Rewards[ak(r.Address())] = &MReward{Cum: r.GetCumulated(), Issued: r.GetIssued(), Withdrawn: r.GetWithdrawn(), Height: r.Height()}
		})
	})
	return
}

// ---- C02 -----------------------------------------------------------------------

func (w *World) CompareSupply(a *AppState) {
	sum := u256(0)
	wrapWitness := new(uint256.Int).Lsh(u256(1), 255)
	for k, ac := range a.Accts {
		sum.Add(sum, ac.Bal)
		if ac.Bal.Cmp(wrapWitness) >= 0 {
			w.fail("C02", "account %s holds %s (>= 2^255): a balance wrapped around", k, ac.Bal.Dec())
		}
	}
	for _, d := range a.Delegs {
		for _, s := range d.Stakes {
			sum.Add(sum, powerToAmount(s.Power))
		}
	}
	for _, s := range a.Unbonding {
		sum.Add(sum, powerToAmount(s.Power))
	}
	want := new(uint256.Int).Add(w.GenesisTotal, w.Withdrawn)
	want = subSat(want, w.Slashed)
	want = subSat(want, w.LostFees)
	if sum.Cmp(want) != 0 {
		d, sign := new(uint256.Int), "+"
		if sum.Cmp(want) > 0 {
			d.Sub(sum, want)
		} else {
			d.Sub(want, sum)
			sign = "-"
		}
		w.fail("C02", "value not conserved: balances+bonded+unbonding = %s, genesis %s + withdrawn %s - slashed %s - proposer-less fees %s = %s (difference %s%s)",
			sum.Dec(), w.GenesisTotal.Dec(), w.Withdrawn.Dec(), w.Slashed.Dec(), w.LostFees.Dec(), want.Dec(), sign, d.Dec())
	}
}

// ---- accounts --------------------------------------------------------------------

// CompareAccounts compares balance and/or nonce of every account the model knows, restricted to
// the accounts for which `sel` (given the cause tags of this block) returns true.
func (w *World) CompareAccounts(a *AppState, prop string, balances, nonces bool, sel func(causes map[string]bool) bool) {
	for _, k := range sortedKeys(w.Accts) {
		m := w.Accts[k]
		causes := w.balCause[k]
		if causes == nil {
			causes = map[string]bool{}
		}
		if sel != nil && !sel(causes) {
			continue
		}
		got, ok := a.Accts[k]
		if !ok {
			got = &MAcct{Bal: u256(0)}
		}
		if balances {
			// compare the change made by this block (an older discrepancy belongs to the block that caused it)
			prevGot, prevM := u256(0), u256(0)
			if a.Prev != nil {
				if pa, ok := a.Prev.Accts[k]; ok {
					prevGot = pa.Bal
				}
			} else if pm, ok := w.balStart[k]; ok {
				prevGot = pm // first block: the genesis state is the model's start
			}
			if pm, ok := w.balStart[k]; ok {
				prevM = pm
			}
			dGot := new(big.Int).Sub(got.Bal.ToBig(), prevGot.ToBig())
			dM := new(big.Int).Sub(m.Bal.ToBig(), prevM.ToBig())
			if dGot.Cmp(dM) != 0 {
				w.fail(prop, "account %s: balance changed by %s in this block (now %s), expected change %s (model effects this block: %v)", k[:8], dGot.String(), got.Bal.Dec(), dM.String(), keysOf(causes))
			}
		}
		if n := w.refOKButFailed[k]; nonces && n > 0 {
			if got.Nonce+uint64(n) != m.Nonce {
				w.fail(prop, "account %s: nonce %d, expected %d: %d of its contract txs failed (non-zero code) and a failed tx does not use up a nonce", k[:8], got.Nonce, m.Nonce-uint64(n), n)
			}
			continue
		}
		if nonces && got.Nonce != m.Nonce {
			w.fail(prop, "account %s: nonce %d, expected %d", k[:8], got.Nonce, m.Nonce)
		}
	}
}

func keysOf(m map[string]bool) []string {
	var ks []string
	for k := range m {
		ks = append(ks, k)
	}
	sort.Strings(ks)
	return ks
}

// ---- C11 -------------------------------------------------------------------------

func stakeID(s *MStake) string { return hx(s.TxHash) + "/" + hx(s.To) + "/" + hx(s.Owner) }

func (w *World) CompareStakes(s *Sim, a *AppState, prop string) {
	// internal consistency of what the application committed
	seen := map[string]string{}
	for k, d := range a.Delegs {
		tot, self := int64(0), int64(0)
		for _, x := range d.Stakes {
			tot += x.Power
			if bytes.Equal(x.Owner, d.Addr) {
				self += x.Power
			}
			if !bytes.Equal(x.To, d.Addr) {
				w.fail(prop, "stake %x bonded under %s names target %x", x.TxHash[:6], k[:8], x.To)
			}
			id := stakeID(x)
			if where, dup := seen[id]; dup {
				w.fail(prop, "stake %s recorded twice (%s and bonded under %s)", id[:12], where, k[:8])
			}
			seen[id] = "bonded under " + k[:8]
		}
		if d.Total != tot {
			w.fail(prop, "delegatee %s: totalPower %d != sum of its stakes %d", k[:8], d.Total, tot)
		}
		if d.Self != self {
			w.fail(prop, "delegatee %s: selfPower %d != sum of its own stakes %d", k[:8], d.Self, self)
		}
	}
	for _, x := range a.Unbonding {
		id := stakeID(x)
		if where, dup := seen[id]; dup {
			w.fail(prop, "stake %s recorded twice (%s and unbonding)", id[:12], where)
		}
		seen[id] = "unbonding"
	}
	// agreement with the reference stake book
	for _, k := range sortedKeys(w.Delegs) {
		md := w.Delegs[k]
		ad, ok := a.Delegs[k]
		if !ok {
			w.fail(prop, "delegatee %s (power %d, %d stakes) is missing from the committed ledger", k[:8], md.total(), len(md.Stakes))
			continue
		}
		want := map[string]*MStake{}
		for _, x := range md.Stakes {
			want[stakeID(x)] = x
		}
		for _, x := range ad.Stakes {
			m, ok := want[stakeID(x)]
			if !ok {
				w.fail(prop, "delegatee %s holds stake %s (power %d) that no successful staking tx created there", k[:8], stakeID(x)[:12], x.Power)
				continue
			}
			if m.Power != x.Power {
				w.fail(prop, "stake %s under %s has power %d, expected %d", stakeID(x)[:12], k[:8], x.Power, m.Power)
			}
			delete(want, stakeID(x))
		}
		for id, m := range want {
			w.fail(prop, "stake %s (power %d, owner %x) should be bonded under %s but is not", id[:12], m.Power, m.Owner[:4], k[:8])
		}
	}
	for k, ad := range a.Delegs {
		if _, ok := w.Delegs[k]; !ok {
			w.fail(prop, "ledger holds delegatee %s (power %d) that should not exist", k[:8], ad.Total)
		}
	}
	// unbonding set
	wantU := map[string]*MStake{}
	for _, x := range w.Unbonding {
		wantU[stakeID(x)] = x
	}
	for _, x := range a.Unbonding {
		m, ok := wantU[stakeID(x)]
		if !ok {
			w.fail(prop, "unbonding ledger holds stake %s (power %d) that should not be there", stakeID(x)[:12], x.Power)
			continue
		}
		if m.Power != x.Power {
			w.fail(prop, "unbonding stake %s has power %d, expected %d", stakeID(x)[:12], x.Power, m.Power)
		}
		delete(wantU, stakeID(x))
	}
	for id, m := range wantU {
		w.fail(prop, "stake %s (power %d, owner %x) should be unbonding but is in no ledger", id[:12], m.Power, m.Owner[:4])
	}
	// total-power queries equal the sums
	sum := int64(0)
	for _, d := range w.Delegs {
		sum += d.total()
	}
	if r, perr := s.Query("stakes/total_power", nil, 0); perr == nil && r.Code == 0 {
		if got, err := strconv.ParseInt(string(r.Value), 10, 64); err != nil || got != sum {
			w.fail(prop, "stakes/total_power answers %s, sum of bonded stakes is %d", r.Value, sum)
		}
	}
	// the per-owner view: what the stakes query lists for an owner is what is bonded in his name, wherever
	owners := map[string]map[string]int64{}
	for _, d := range w.Delegs {
		for _, x := range d.Stakes {
			k := ak(x.Owner)
			if owners[k] == nil {
				owners[k] = map[string]int64{}
			}
			owners[k][hx(x.TxHash)+"/"+hx(x.To)] = x.Power
		}
	}
	for _, k := range sortedKeys(w.Delegs) { // every delegatee is asked too, with or without stakes of his own elsewhere
		if owners[k] == nil {
			owners[k] = map[string]int64{}
		}
	}
	for _, k := range sortedKeys(owners) {
		r, perr := s.Query("stakes", unhx(k), 0)
		if perr != nil {
			continue
		}
		var q []*qStake
		if r.Code != 0 || (len(r.Value) > 0 && json.Unmarshal(r.Value, &q) != nil) {
			if len(owners[k]) > 0 {
				w.fail(prop, "stakes query for owner %s failed (code %d), %d stakes are bonded in his name", k[:8], r.Code, len(owners[k]))
			}
			continue
		}
		if len(q) != len(owners[k]) {
			w.fail(prop, "stakes query for owner %s lists %d stakes, %d are bonded in his name", k[:8], len(q), len(owners[k]))
			continue
		}
		for _, x := range q {
			if p, ok := owners[k][strings.ToLower(x.TxHash)+"/"+strings.ToLower(x.To)]; !ok || p != int64(x.Power) {
				w.fail(prop, "stakes query for owner %s lists stake %s (power %d) that is not bonded like that", k[:8], trunc(x.TxHash, 12), x.Power)
			}
		}
	}
}

// ---- C12 -------------------------------------------------------------------------

func (w *World) CompareUnbonding(a *AppState, prop string) {
	want := map[string]*MStake{}
	for _, x := range w.Unbonding {
		want[stakeID(x)] = x
	}
	for _, x := range a.Unbonding {
		m, ok := want[stakeID(x)]
		if !ok {
			w.fail(prop, "unbonding ledger holds stake %s (power %d, refund at %d): never released, or already refunded", stakeID(x)[:12], x.Power, x.Refund)
			continue
		}
		if x.Refund != m.Refund {
			w.fail(prop, "stake %s released at %d with period %d: refund height %d, expected %d", stakeID(x)[:12], m.ReleasedAt, m.PeriodAtRel, x.Refund, m.Refund)
		}
		if !bytes.Equal(x.Owner, m.Owner) {
			w.fail(prop, "unbonding stake %s changed owner", stakeID(x)[:12])
		}
		delete(want, stakeID(x))
	}
	for id, m := range want {
		w.fail(prop, "stake %s (owner %x, power %d, refund due at %d) is neither unbonding nor refunded by the model's rule", id[:12], m.Owner[:4], m.Power, m.Refund)
	}
	// released stakes carry no power: none of them is bonded
	for _, d := range a.Delegs {
		for _, x := range d.Stakes {
			if _, unb := w.Unbonding[hx(x.TxHash)+"/"+hx(x.To)]; unb {
				w.fail(prop, "released stake %x still bonded under %x", x.TxHash[:6], d.Addr[:4])
			}
		}
	}
}

// ---- C13 -------------------------------------------------------------------------

func (w *World) CompareRewards(a *AppState, prop string) {
	for _, k := range sortedKeys(w.Rewards) {
		m := w.Rewards[k]
		got, ok := a.Rewards[k]
		if !ok {
			if !m.Cum.IsZero() {
				w.fail(prop, "account %s should have %s withdrawable reward but has no reward record", k[:8], m.Cum.Dec())
			}
			continue
		}
		if got.Cum.Cmp(m.Cum) != 0 {
			w.fail(prop, "account %s: withdrawable reward %s, expected issued-withdrawn = %s", k[:8], got.Cum.Dec(), m.Cum.Dec())
		}
	}
	for k, got := range a.Rewards {
		if _, ok := w.Rewards[k]; !ok && !got.Cum.IsZero() {
			w.fail(prop, "account %s earned %s although no stake of it was bonded to a signing validator", k[:8], got.Cum.Dec())
		}
	}
}

// issuedFromEvents extracts the `issued` attribute of the reward event of BeginBlock.
func issuedFromEvents(br *BlockResult) (*uint256.Int, bool) {
	for _, e := range br.BeginEvents {
		if e.Type == "reward" {
			for _, at := range e.Attributes {
				if string(at.Key) == "issued" {
					v, err := uint256.FromDecimal(string(at.Value))
					if err == nil {
						return v, true
					}
				}
			}
		}
	}
	return nil, false
}

// ---- C10 -------------------------------------------------------------------------

// CompareValidators checks set(h+2) (folded by Tendermint's code from the app's updates) against the
// reference selection over the book committed by block h-1 with the parameters active in block h.
func (w *World) CompareValidators(h int64, prop string) {
	got := setEntries(w.TM.At(h + 2))
	book := w.delegAt[h-1]
	p := w.ParamsAt[h]
	if book == nil || p == nil {
		return
	}
	minP := p.minValidatorPower()
	type cand struct {
		addr  string
		total int64
	}
	var cands []cand
	for k, d := range book {
		if d.self() >= minP {
			cands = append(cands, cand{k, d.total()})
		}
	}
	n := int(p.MaxValidatorCnt)
	if n > len(cands) {
		n = len(cands)
	}
	if len(got) != n {
		w.fail(prop, "after block %d the consensus set has %d validators, expected min(%d eligible, max %d): set=%s eligible=%v", h, len(got), len(cands), p.MaxValidatorCnt, fmtSet(got), cands)
		return
	}
	in := map[string]int64{}
	minIncluded := int64(-1)
	for _, e := range got {
		in[ak(e.Addr)] = e.Power
		d, ok := book[ak(e.Addr)]
		if !ok || d.self() < minP {
			w.fail(prop, "after block %d validator %x is in the consensus set but is not an eligible delegatee as of block %d", h, e.Addr[:4], h-1)
			continue
		}
		if d.total() != e.Power {
			w.fail(prop, "after block %d validator %x has voting power %d, its total bonded power as of block %d is %d", h, e.Addr[:4], e.Power, h-1, d.total())
		}
		if minIncluded < 0 || d.total() < minIncluded {
			minIncluded = d.total()
		}
	}
	for _, c := range cands {
		if _, ok := in[c.addr]; !ok && c.total > minIncluded && minIncluded >= 0 {
			w.fail(prop, "after block %d candidate %s (power %d) is excluded although an included validator has only %d", h, c.addr[:8], c.total, minIncluded)
		}
	}
}

// ---- C15 -------------------------------------------------------------------------

func (w *World) CompareGov(s *Sim, prop string) {
	// active parameters == gov_params query == accessor
	var got Params
	if code, err := queryJSON(s, "gov_params", nil, 0, &got); err != nil || code != 0 {
		w.fail(prop, "gov_params query failed: code=%d err=%v", code, err)
	} else if got.normalized() != w.Params.normalized() {
		w.fail(prop, "gov_params query returns %s, expected active parameters %s", got.JSON(), w.Params.JSON())
	}
	gp := s.App.VerifGov().GetGovParams()
	if act := paramsFromGov(&gp); act.normalized() != w.Params.normalized() {
		w.fail(prop, "parameters active in the application %s differ from the expected ones %s", act.JSON(), w.Params.JSON())
	}
	// proposals
	check := func(pr *MProposal, wantStatus string) {
		var q qProposal
		code, err := queryJSON(s, "proposal", pr.TxHash, 0, &q)
		if err != nil || code != 0 {
			w.fail(prop, "proposal %x (%s) not returned by the query: code=%d err=%v", pr.TxHash[:6], wantStatus, code, err)
			return
		}
		if q.Status != wantStatus {
			w.fail(prop, "proposal %x has status %q, expected %q", pr.TxHash[:6], q.Status, wantStatus)
		}
		if pr.Voters == nil {
			return
		}
		if wantStatus == "voting" && (int64(q.Proposal.Header.Total) != pr.Total || int64(q.Proposal.Header.Majority) != pr.Majority) {
			w.fail(prop, "proposal %x: total/majority power %d/%d, expected %d/%d", pr.TxHash[:6], q.Proposal.Header.Total, q.Proposal.Header.Majority, pr.Total, pr.Majority)
		}
		if wantStatus == "voting" && len(q.Proposal.Header.Votes) != len(pr.Voters) {
			w.fail(prop, "proposal %x: %d recorded voters, expected %d", pr.TxHash[:6], len(q.Proposal.Header.Votes), len(pr.Voters))
		}
		for k, v := range q.Proposal.Header.Votes {
			m, ok := pr.Voters[strings.ToLower(k)]
			if !ok {
				w.fail(prop, "proposal %x: voter %s should not be recorded", pr.TxHash[:6], k[:8])
				continue
			}
			if int64(v.Power) != m.Power || int32(v.Choice) != m.Choice {
				if wantStatus == "voting" {
					w.fail(prop, "proposal %x voter %s: power/choice %d/%d, expected %d/%d", pr.TxHash[:6], k[:8], v.Power, v.Choice, m.Power, m.Choice)
				}
			}
		}
		if wantStatus == "voting" {
			// per-option tallies (options keep their order while voting is open)
			for i, o := range q.Proposal.Options {
				if i < len(pr.Votes) && int64(o.Votes) != pr.Votes[i] {
					w.fail(prop, "proposal %x option %d has %d votes, expected %d", pr.TxHash[:6], i, o.Votes, pr.Votes[i])
				}
			}
		}
	}
	for _, k := range sortedKeys(w.Open) {
		check(w.Open[k], "voting")
	}
	for _, k := range sortedKeys(w.Frozen) {
		check(w.Frozen[k], "frozen")
	}
	// nothing else is open or frozen
	var all []qProposal
	if code, err := queryJSON(s, "proposal", nil, 0, &all); err == nil && code == 0 {
		for _, q := range all {
			id := strings.ToLower(q.Proposal.Header.TxHash)
			_, o := w.Open[id]
			_, f := w.Frozen[id]
			if !o && !f {
				w.fail(prop, "proposal %s is listed as %s but should have been removed/applied", id[:12], q.Status)
			}
		}
	}
}

var _ = fmt.Sprintf
