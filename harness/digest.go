//go:build verif

package harness

import (
	"encoding/json"
	"fmt"
	"sort"

	"github.com/ethereum/go-ethereum/common"
	"github.com/rigochain/rigo-go/ctrlers/stake"
	ctypes "github.com/rigochain/rigo-go/ctrlers/types"
)

// semanticDigest lists, through read-only accessors, everything the properties call state:
// balances, nonces, names/documents, code markers, bonded and unbonding stakes, rewards,
// proposals and votes, governance parameters, contract code and storage - as committed by
// the last block. Empty accounts are omitted (indistinguishable from absent ones by every query).
func semanticDigest(s *Sim) (lines []string, perr *PanicError) {
	perr = guard("digest", func() {
		app := s.App
		var addrs [][]byte
		_ = app.VerifAcct().VerifIterAccounts(func(a *ctypes.Account) {
			addrs = append(addrs, append([]byte(nil), a.Address...))
			if a.Balance.IsZero() && a.Nonce == 0 && a.Name == "" && a.DocURL == "" && len(a.Code) == 0 {
				return
			}
			lines = append(lines, fmt.Sprintf("A %x bal=%s nonce=%d name=%q doc=%q code=%x", a.Address, a.Balance.Dec(), a.Nonce, a.Name, a.DocURL, a.Code))
		})
		_ = app.VerifStake().VerifIterDelegatees(func(d *stake.Delegatee) {
			bz, _ := json.Marshal(d)
			lines = append(lines, "D "+string(bz))
		})
		for _, st := range app.VerifStake().ReadFrozenStakes() {
			bz, _ := json.Marshal(st)
			lines = append(lines, "U "+string(bz))
		}
		_ = app.VerifStake().VerifIterRewards(func(r *stake.Reward) {
			lines = append(lines, fmt.Sprintf("R %x issued=%s withdrawn=%s slashed=%s cum=%s h=%d", r.Address(), r.GetIssued().Dec(), r.GetWithdrawn().Dec(), r.GetSlashed().Dec(), r.GetCumulated().Dec(), r.Height()))
		})
		if props, xerr := app.VerifGov().ReadAllProposals(); xerr == nil {
			for _, p := range props {
				bz, _ := json.Marshal(p)
				lines = append(lines, "P "+string(bz))
			}
		}
		if props, err := app.VerifGov().VerifFrozenProposals(); err == nil {
			for _, p := range props {
				bz, _ := json.Marshal(p)
				lines = append(lines, "F "+string(bz))
			}
		}
		gp := app.VerifGov().GetGovParams()
		lines = append(lines, "G "+string(paramsFromGov(&gp).JSON()))
		if s.H >= 1 {
			if st, xerr := app.VerifEVM().ImmutableStateAt(s.H); xerr == nil {
				for _, a := range addrs {
					var ca common.Address
					copy(ca[:], a)
					if st.GetCodeSize(ca) == 0 {
						continue
					}
					line := fmt.Sprintf("C %x code=%x", a, st.GetCode(ca))
					var slots []string
					_ = st.ForEachStorage(ca, func(k, v common.Hash) bool {
						slots = append(slots, fmt.Sprintf("%x=%x", k, v))
						return true
					})
					sort.Strings(slots)
					lines = append(lines, fmt.Sprintf("%s storage=%v", line, slots))
				}
			}
		}
	})
	sort.Strings(lines)
	return
}

func diffLines(a, b []string) string {
	ma, mb := map[string]bool{}, map[string]bool{}
	for _, l := range a {
		ma[l] = true
	}
	for _, l := range b {
		mb[l] = true
	}
	out := ""
	n := 0
	for _, l := range a {
		if !mb[l] && n < 6 {
			out += "\n  only A: " + trunc(l, 400)
			n++
		}
	}
	for _, l := range b {
		if !ma[l] && n < 12 {
			out += "\n  only B: " + trunc(l, 400)
			n++
		}
	}
	return out
}

func trunc(s string, n int) string {
	if len(s) > n {
		return s[:n] + "..."
	}
	return s
}
