//go:build verif

package harness

import (
	"bytes"
	"encoding/json"
	"fmt"
	"strconv"
	"strings"
	"testing"

	ctypes "github.com/rigochain/rigo-go/ctrlers/types"
)

type qAnswer struct {
	Code  uint32
	Value []byte
}

func qk(path string, data []byte, h int64) string { return fmt.Sprintf("%s|%x|%d", path, data, h) }

var c19Paths = []string{"account", "delegatee", "stakes", "stakes/total_power", "reward", "proposal", "gov_params"}

// c19Universe: every key the model knows, plus unknown ones.
func c19Universe(w *World) map[string][][]byte {
	var addrs [][]byte
	for _, k := range sortedKeys(w.Accts) {
		addrs = append(addrs, unhx(k))
	}
	addrs = append(addrs, actorNamed("ghost").Addr)
	var props [][]byte
	for _, k := range sortedKeys(w.everProposals) {
		props = append(props, unhx(k))
	}
	props = append(props, txHashOf([]byte("no such proposal")))
	return map[string][][]byte{
		"account": addrs, "delegatee": addrs, "stakes": addrs, "reward": addrs,
		"stakes/total_power": {nil}, "gov_params": {nil}, "proposal": props,
	}
}

// checkAgainstModel compares a fresh answer for the just committed height with the reference model.
func checkAgainstModel(w *World, path string, key []byte, ans qAnswer) string {
	switch path {
	case "account":
		var q qAccount
		if ans.Code != 0 || json.Unmarshal(ans.Value, &q) != nil {
			return fmt.Sprintf("account query failed: code=%d", ans.Code)
		}
		m, ok := w.Accts[ak(key)]
		if !ok {
			m = &MAcct{Bal: u256(0)}
		}
		if q.Balance != m.Bal.Dec() || uint64(q.Nonce) != m.Nonce || q.Name != m.Name || q.DocURL != m.Doc {
			return fmt.Sprintf("account %x: query says balance=%s nonce=%d name=%q doc=%q, committed state is balance=%s nonce=%d name=%q doc=%q", key[:4], q.Balance, q.Nonce, q.Name, q.DocURL, m.Bal.Dec(), m.Nonce, m.Name, m.Doc)
		}
	case "delegatee":
		d, ok := w.Delegs[ak(key)]
		if !ok {
			if ans.Code == 0 {
				return fmt.Sprintf("delegatee %x: query answers although no such delegatee is committed", key[:4])
			}
			return ""
		}
		var q qDelegatee
		if ans.Code != 0 || json.Unmarshal(ans.Value, &q) != nil {
			return fmt.Sprintf("delegatee %x: query failed (code %d) although it is committed", key[:4], ans.Code)
		}
		if int64(q.Total) != d.total() || int64(q.Self) != d.self() || len(q.Stakes) != len(d.Stakes) {
			return fmt.Sprintf("delegatee %x: query says total=%d self=%d stakes=%d, committed state is total=%d self=%d stakes=%d", key[:4], q.Total, q.Self, len(q.Stakes), d.total(), d.self(), len(d.Stakes))
		}
	case "stakes":
		var q []*qStake
		if ans.Code != 0 || (len(ans.Value) > 0 && json.Unmarshal(ans.Value, &q) != nil) {
			return fmt.Sprintf("stakes query failed: code=%d", ans.Code)
		}
		want := map[string]int64{}
		for _, d := range w.Delegs {
			for _, s := range d.Stakes {
				if bytes.Equal(s.Owner, key) {
					want[hx(s.TxHash)+"/"+hx(s.To)] = s.Power
				}
			}
		}
		if len(q) != len(want) {
			return fmt.Sprintf("stakes of %x: query lists %d stakes, committed are %d", key[:4], len(q), len(want))
		}
		for _, s := range q {
			if p, ok := want[strings.ToLower(s.TxHash)+"/"+strings.ToLower(s.To)]; !ok || p != int64(s.Power) {
				return fmt.Sprintf("stakes of %x: query lists stake %s power %d, not committed like that", key[:4], s.TxHash[:8], s.Power)
			}
		}
	case "stakes/total_power":
		sum := int64(0)
		for _, d := range w.Delegs {
			sum += d.total()
		}
		if got, err := strconv.ParseInt(string(ans.Value), 10, 64); ans.Code != 0 || err != nil || got != sum {
			return fmt.Sprintf("stakes/total_power: query says %s, committed total is %d", ans.Value, sum)
		}
	case "reward":
		m, ok := w.Rewards[ak(key)]
		if !ok {
			if ans.Code == 0 {
				var q qReward
				if json.Unmarshal(ans.Value, &q) == nil && q.Cumulated != "0" && q.Cumulated != "" {
					return fmt.Sprintf("reward of %x: query says %s, nothing was ever issued", key[:4], q.Cumulated)
				}
			}
			return ""
		}
		var q qReward
		if ans.Code != 0 || json.Unmarshal(ans.Value, &q) != nil {
			return fmt.Sprintf("reward of %x: query failed (code %d), committed withdrawable is %s", key[:4], ans.Code, m.Cum.Dec())
		}
		if q.Cumulated != m.Cum.Dec() {
			return fmt.Sprintf("reward of %x: query says %s, committed withdrawable is %s", key[:4], q.Cumulated, m.Cum.Dec())
		}
	case "proposal":
		id := hx(key)
		pr, open := w.Open[id]
		if !open {
			var frozen bool
			pr, frozen = w.Frozen[id]
			if !frozen {
				if ans.Code == 0 {
					return fmt.Sprintf("proposal %s: query answers although it is neither open nor frozen", id[:8])
				}
				return ""
			}
		}
		var q qProposal
		if ans.Code != 0 || json.Unmarshal(ans.Value, &q) != nil {
			return fmt.Sprintf("proposal %s: query failed (code %d)", id[:8], ans.Code)
		}
		if open && q.Status != "voting" || !open && q.Status != "frozen" {
			return fmt.Sprintf("proposal %s: query says status %q", id[:8], q.Status)
		}
		if open && pr.Voters != nil {
			for i, o := range q.Proposal.Options {
				if i < len(pr.Votes) && int64(o.Votes) != pr.Votes[i] {
					return fmt.Sprintf("proposal %s option %d: query says %d votes, committed tally is %d", id[:8], i, o.Votes, pr.Votes[i])
				}
			}
		}
	case "gov_params":
		var q Params
		if ans.Code != 0 || json.Unmarshal(ans.Value, &q) != nil {
			return fmt.Sprintf("gov_params query failed: code=%d", ans.Code)
		}
		if q.normalized() != w.Params.normalized() {
			return fmt.Sprintf("gov_params: query says %s, active parameters are %s", q.JSON(), w.Params.JSON())
		}
	}
	return ""
}

// C19: queries return the state committed at the requested height, read-only.
func TestC19(t *testing.T) {
	p := defaultProfile()
	p.MinBlocks, p.MaxBlocks = 8, 26
	p.MaxTxs = 5
	p.Inject = true
	p.InjectAfterOnly = true
	p.W["propose"], p.W["vote"] = 10, 14
	runCheck(t, "C19", p, func(src Source, st *Stats) *Outcome {
		gs, generating := src.(*GenSource)
		recorded := map[string]qAnswer{}
		changedAt := map[string][]int64{} // path|key -> heights at which the answer differs from the previous height
		var recKeys []string              // path|keyhex (for drawing)
		var changedKeys []string          // those of recKeys whose answer changed at least once
		seenKey := map[string]bool{}
		var verr error
		reasks, oldChanged, midBlockChanged, checksOK := 0, 0, 0, 0
		fail := func(f string, a ...interface{}) {
			if verr == nil {
				verr = violationf(f, a...)
			}
		}
		ask := func(s *Sim, path string, data []byte, h int64) qAnswer {
			r, perr := s.Query(path, data, h)
			if perr != nil {
				fail("query %s panicked: %v", path, perr)
				return qAnswer{Code: 99999}
			}
			return qAnswer{Code: r.Code, Value: r.Value}
		}
		// answers are compared as values: JSON objects are canonicalised (the proposal query renders
		// its voter map in Go's random map order, which is presentation, not content)
		same := func(a, b qAnswer) bool {
			return a.Code == b.Code && bytes.Equal(canonJSON(a.Value), canonJSON(b.Value))
		}

		// one re-ask; `touched` = accounts changed by successful txs of the executing block so far
		reask := func(c *Case, inj Injected, touched map[string]bool) {
			tip := c.Sim.H
			got := ask(c.Sim, inj.Path, inj.Data, inj.Height)
			reasks++
			switch {
			case inj.Height == 0:
				if want, ok := recorded[qk(inj.Path, inj.Data, tip)]; ok && !same(got, want) {
					fail("query %s(%x) at height 0 (last committed %d, asked %s) answers %s, the answer recorded right after commit %d was %s", inj.Path, inj.Data, tip, inj.whenNote, trunc(string(got.Value), 160), tip, trunc(string(want.Value), 160))
				}
				if touched[ak(inj.Data)] && (inj.Path == "account" || inj.Path == "delegatee" || inj.Path == "stakes" || inj.Path == "reward") {
					midBlockChanged++
				}
			case inj.Height > tip:
				if got.Code == 0 {
					fail("query %s(%x) at height %d beyond the tip %d answers with code 0: %s", inj.Path, inj.Data, inj.Height, tip, trunc(string(got.Value), 120))
				}
			case inj.Height >= 1:
				if want, ok := recorded[qk(inj.Path, inj.Data, inj.Height)]; ok {
					if !same(got, want) {
						fail("query %s(%x) at past height %d (tip %d, asked %s) answers %s, but right after commit %d it answered %s", inj.Path, inj.Data, inj.Height, tip, inj.whenNote, trunc(string(got.Value), 160), inj.Height, trunc(string(want.Value), 160))
					}
					if tip-inj.Height >= 3 {
						for _, ch := range changedAt[inj.Path+"|"+hx(inj.Data)] {
							if ch > inj.Height {
								oldChanged++
								break
							}
						}
					}
				}
			}
		}

		drawReasks := func(c *Case, b *Block, pos int, when string) {
			if !generating || len(recKeys) == 0 {
				return
			}
			rt := gs.t
			for i, n := 0, unif(rt, 4, "nReasks"); i < n; i++ {
				pk := pick(rt, recKeys, "reaskKey")
				if len(changedKeys) > 0 && pct(rt, 55, "reaskChangedKey") {
					pk = pick(rt, changedKeys, "reaskChanged")
				}
				parts := strings.SplitN(pk, "|", 2)
				inj := Injected{Pos: pos, Kind: "query", Path: parts[0], Data: unhx(parts[1])}
				tip := c.Sim.H
				switch unif(rt, 9, "reaskHeight") {
				case 6, 7, 8:
					// around a height at which this key's answer changed: the version just before it and the one that changed it
					if chs := changedAt[pk]; len(chs) > 0 {
						ch := pick(rt, chs, "reaskAtChange")
						inj.Height = ch - int64(unif(rt, 2, "reaskBeforeChange"))
						if inj.Height < 1 {
							inj.Height = ch
						}
					} else if tip >= 1 {
						inj.Height = 1 + int64(unif(rt, int(tip), "reaskPast2"))
					}
				case 0:
					inj.Height = 0
				case 1:
					inj.Height = tip
				case 2, 3:
					if tip >= 1 {
						inj.Height = 1 + int64(unif(rt, int(tip), "reaskPast"))
					}
				case 4:
					if tip > 3 {
						inj.Height = 1 + int64(unif(rt, int(tip-3), "reaskOld"))
					}
				case 5:
					inj.Height = tip + 1 + int64(unif(rt, 3, "reaskFuture"))
				}
				b.Inject = append(b.Inject, inj)
			}
		}
		runAt := func(c *Case, b *Block, pos int, when string, touched map[string]bool) {
			for i := range b.Inject {
				inj := b.Inject[i]
				if inj.Pos != pos || inj.done {
					continue
				}
				b.Inject[i].done = true
				switch inj.Kind {
				case "query":
					inj.whenNote = when
					reask(c, inj, touched)
				case "check":
					r, perr := c.Sim.CheckTx(inj.Tx)
					if perr != nil {
						fail("CheckTx panicked: %v", perr)
					}
					// "unaffected by pending mempool checks": ask right away for what an accepted check touched
					if perr == nil && r.Code == 0 && generating && pos != 99 {
						tx := &ctypes.Trx{}
						if tx.Decode(inj.Tx) == nil && len(tx.From) == 20 && len(tx.To) == 20 {
							checksOK++
							st.label("accepted_mempool_check:"+txTypeName(tx.Type), 1)
							for i, n := 0, 1+unif(gs.t, 2, "nAfterCheck"); i < n; i++ {
								key := tx.From
								if pct(gs.t, 35, "afterCheckTo") {
									key = tx.To
								}
								path := pick(gs.t, []string{"account", "reward", "stakes", "delegatee", "stakes/total_power"}, "afterCheckPath")
								if pct(gs.t, 60, "afterCheckTargeted") {
									switch tx.Type {
									case ctypes.TRX_WITHDRAW:
										path, key = "reward", tx.From
									case ctypes.TRX_STAKING, ctypes.TRX_UNSTAKING:
										path = pick(gs.t, []string{"stakes", "delegatee"}, "afterCheckStakePath")
										if path == "delegatee" {
											key = tx.To
										}
									default:
										path = "account"
									}
								}
								b.Inject = append(b.Inject, Injected{Pos: 99, Kind: "query", Path: path,
									Data: append([]byte(nil), key...), Height: pick(gs.t, []int64{0, 0, c.Sim.H}, "afterCheckHeight")})
								if b.Inject[len(b.Inject)-1].Path == "stakes/total_power" {
									b.Inject[len(b.Inject)-1].Data = nil
								}
							}
						}
					}
				}
			}
		}

		opts := &PrimaryOpts{
			BlockHooks: func(c *Case, b *Block) *BlockHooks {
				touched := map[string]bool{}
				return &BlockHooks{
					AfterBegin: func() {
						drawReasks(c, b, 0, "after BeginBlock")
						runAt(c, b, 0, "after BeginBlock", touched)
					},
					AfterTx: func(i int, r TxResult) {
						if r.Code == 0 {
							tx := &ctypes.Trx{}
							if tx.Decode(b.Txs[i]) == nil {
								touched[ak(tx.From)] = true
								touched[ak(tx.To)] = true
							}
						}
						drawReasks(c, b, i+1, "inside the block")
						runAt(c, b, i+1, fmt.Sprintf("inside block %d after DeliverTx %d", c.Sim.H+1, i), touched)
					},
				}
			},
			AfterCommit: func(c *Case, b *Block, br *BlockResult) error {
				if verr != nil {
					return verr
				}
				h := br.Height
				// injected calls scheduled after EndBlock/after Commit by the generic injector run here
				for pos := len(b.Txs) + 1; pos <= len(b.Txs)+2; pos++ {
					runAt(c, b, pos, "between blocks", nil)
				}
				// record (and check against the model) every path x key at the new height
				uni := c19Universe(c.W)
				for _, path := range c19Paths {
					for _, key := range uni[path] {
						ans := ask(c.Sim, path, key, h)
						recorded[qk(path, key, h)] = ans
						pk := path + "|" + hx(key)
						if !seenKey[pk] {
							seenKey[pk] = true
							recKeys = append(recKeys, pk)
						}
						if prev, ok := recorded[qk(path, key, h-1)]; ok && !same(prev, ans) {
							if len(changedAt[pk]) == 0 {
								changedKeys = append(changedKeys, pk)
							}
							changedAt[pk] = append(changedAt[pk], h)
						}
						if msg := checkAgainstModel(c.W, path, key, ans); msg != "" {
							fail("height %d: %s", h, msg)
						}
						// height 0 is the last committed height
						if z := ask(c.Sim, path, key, 0); !same(z, ans) {
							fail("height %d: query %s(%x) with height 0 answers %s, with height %d it answers %s", h, path, key, trunc(string(z.Value), 120), h, trunc(string(ans.Value), 120))
						}
					}
				}
				// the voting power of the validator set: only at the tip (for a past height the application selects the set
				// with the limits in force now, so that answer is not a function of the height alone and is not re-asked)
				{
					want := int64(0)
					for _, e := range c.W.selectValidators(c.W.Delegs, c.W.Params) {
						want += e.Power
					}
					for _, at := range []int64{h, 0} {
						ans := ask(c.Sim, "stakes/voting_power", nil, at)
						if got, err := strconv.ParseInt(string(ans.Value), 10, 64); ans.Code != 0 || err != nil || got != want {
							fail("height %d: stakes/voting_power (asked with height %d) answers %s (code %d), the committed delegatees and limits give %d", h, at, trunc(string(ans.Value), 40), ans.Code, want)
						}
					}
					st.label("voting_power_at_tip_compared", 1)
				}
				if verr != nil {
					return verr
				}
				// restart now and then (answers must survive it)
				if generating && pct(gs.t, 12, "restartAfter") {
					b.RestartAfter = true
				}
				if b.RestartAfter {
					if _, perr := c.Sim.Restart(); perr != nil {
						return violationf("restart panicked: %v", perr)
					}
					st.label("restarts", 1)
				}
				drawReasks(c, b, 99, "between blocks")
				runAt(c, b, 99, "between blocks (after commit"+map[bool]string{true: " and restart", false: ""}[b.RestartAfter]+")", nil)
				return verr
			},
		}
		c, err := RunPrimary("C19", src, opts)
		out := &Outcome{Case: c}
		if err == nil && verr != nil {
			err = verr
		}
		if err != nil {
			if _, isPanic := err.(*PanicError); isPanic {
				return out
			}
			out.Err = err
			return out
		}
		// (v) serving queries never alters what is committed: quiet twin
		sb, resB, rerr := runReplica(c.Hist, nil, nil)
		defer sb.Close(true)
		if rerr != nil {
			out.Err = violationf("quiet replica failed: %v", rerr)
			return out
		}
		for i := range c.Results {
			if d := diffBlock(c.Results[i], resB[i]); d != "" {
				out.Err = violationf("replica that served queries diverges from the quiet one: %s", d)
				return out
			}
		}
		st.label("reasks", reasks)
		st.label("accepted_mempool_checks_followed_by_queries", checksOK)
		st.label("reask_old_height_of_changed_key", oldChanged)
		st.label("midblock_ask_of_key_changed_in_block", midBlockChanged)
		st.label("recorded_answers", len(recorded))
		out.Nontrivial = oldChanged > 0 || midBlockChanged > 0
		out.Shape = c.shape() + fmt.Sprintf("|q%d,%d", oldChanged, midBlockChanged)
		return out
	})
}

func canonJSON(b []byte) []byte {
	var v interface{}
	d := json.NewDecoder(bytes.NewReader(b))
	d.UseNumber()
	if err := d.Decode(&v); err != nil {
		return b
	}
	out, err := json.Marshal(v)
	if err != nil {
		return b
	}
	return out
}
