//go:build verif

package harness

import (
	"bytes"
	"testing"

	ctypes "github.com/rigochain/rigo-go/ctrlers/types"
)

// runInjected serves the injected calls scheduled at position pos of block b on replica s.
// It returns the tx types of the CheckTx calls that succeeded.
func runInjected(s *Sim, b *Block, pos int) (okTypes []int32, err error) {
	for _, inj := range b.Inject {
		if inj.Pos != pos {
			continue
		}
		switch inj.Kind {
		case "check":
			r, perr := s.CheckTx(inj.Tx)
			if perr != nil {
				return okTypes, perr
			}
			if r.Code == 0 {
				tx := &ctypes.Trx{}
				if tx.Decode(inj.Tx) == nil {
					okTypes = append(okTypes, tx.Type)
				}
			}
		case "query":
			if _, perr := s.Query(inj.Path, inj.Data, inj.Height); perr != nil {
				return okTypes, perr
			}
		}
	}
	return okTypes, nil
}

// injectionHooks builds the ABCI-boundary hooks that serve b.Inject on s.
func injectionHooks(s *Sim, b *Block, onOK func(pos int, typ int32), onPanic func(*PanicError)) *BlockHooks {
	n := len(b.Txs)
	run := func(pos int) {
		oks, err := runInjected(s, b, pos)
		for _, ty := range oks {
			onOK(pos, ty)
		}
		if err != nil {
			if p, ok := err.(*PanicError); ok {
				onPanic(p)
			}
		}
	}
	return &BlockHooks{
		AfterBegin: func() {
			if n == 0 {
				run(0)
			}
		},
		BeforeTx: func(i int) { run(i) },
		AfterTx: func(i int, r TxResult) {
			if i == n-1 {
				run(n)
			}
		},
		AfterEnd:    func() { run(n + 1) },
		AfterCommit: func() { run(n + 2) },
	}
}

// C06 Isolation: a replica that serves arbitrary CheckTx/Query calls between the consensus
// calls produces the same block results and commits the same state as a quiet replica.
func TestC06(t *testing.T) {
	p := defaultProfile()
	p.MinBlocks, p.MaxBlocks = 6, 24
	p.Inject = true
	p.MaxVals = 6
	p.BlockGasBoundary = true
	p.Alt, p.PAlt = gasGovProfile(), 45
	p.Alt.Inject = true
	runCheck(t, "C06", p, func(src Source, st *Stats) *Outcome {
		c, err := RunPrimary("C06", src, nil)
		out := &Outcome{Case: c}
		if err != nil {
			if _, isPanic := err.(*PanicError); isPanic {
				return out
			}
			out.Err = err
			return out
		}
		okInside, okTotal, injected := map[int32]int{}, 0, 0
		var noisyPanic *PanicError
		sb, _, rerr := runReplicaPre(c.Hist,
			func(s *Sim, bi int, b *Block) { // before BeginBlock
				injected += len(b.Inject)
				oks, err := runInjected(s, b, -1)
				okTotal += len(oks)
				if p, ok := err.(*PanicError); ok {
					noisyPanic = p
				}
			},
			func(s *Sim, bi int, b *Block) *BlockHooks {
				n := len(b.Txs)
				return injectionHooks(s, b, func(pos int, ty int32) {
					okTotal++
					if pos >= 0 && pos <= n {
						okInside[ty]++
					}
				}, func(p *PanicError) { noisyPanic = p })
			},
			func(s *Sim, bi int, b *Block, br *BlockResult) error {
				if d := diffBlock(c.Results[bi], br); d != "" {
					return violationf("replica serving CheckTx/Query diverges from the quiet one: %s", d)
				}
				return nil
			})
		defer sb.Close(true)
		if noisyPanic != nil {
			// a panic caused by an injected call is C09's finding; the case ends here
			st.label("ended_by:injected_call_panic", 1)
			return out
		}
		if rerr != nil {
			if v, ok := rerr.(*ViolationError); ok {
				out.Err = v
			} else {
				out.Err = violationf("noisy replica failed where the quiet one did not: %v", rerr)
			}
			return out
		}
		if sb.H != c.Sim.H || !bytes.Equal(sb.AppHash, c.Sim.AppHash) {
			out.Err = violationf("final state differs: %d/%x vs %d/%x", c.Sim.H, c.Sim.AppHash, sb.H, sb.AppHash)
			return out
		}
		st.label("injected_calls", injected)
		st.label("checktx_ok", okTotal)
		inside := 0
		for ty, n := range okInside {
			st.label("checktx_ok_inside_block:"+txTypeName(ty), n)
			inside += n
		}
		st.label("check_between_endblock_and_commit_of_param_change", c.W.Feat["check_between_endblock_and_commit_of_param_change"])
		armed := len(c.Hist.Genesis.Validators) >= 3
		if armed {
			st.label("histories_with_limiter_armed", 1)
		}
		out.Nontrivial = inside > 0
		if okInside[ctypes.TRX_STAKING]+okInside[ctypes.TRX_UNSTAKING] > 0 && armed {
			st.label("nontrivial:stake_check_inside_block_limiter_armed", 1)
		}
		out.Shape = c.shape() + injShape(c.Hist)
		return out
	})
}

func injShape(h *History) string {
	s := "|I"
	for _, b := range h.Blocks {
		for _, i := range b.Inject {
			s += i.Kind[:1]
			if i.Pos < 0 {
				s += "<"
			} else if i.Pos <= len(b.Txs) {
				s += "="
			} else {
				s += ">"
			}
		}
		s += "/"
	}
	return s
}
