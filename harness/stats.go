//go:build verif

package harness

import (
	"encoding/json"
	"os"
	"sync"
)

// Stats is what a test process reports back to the driver (→ evidence file).
type Stats struct {
	mu           sync.Mutex
	Property     string                 `json:"property"`
	Evaluations  int                    `json:"evaluations"`
	Nontrivial   int                    `json:"nontrivial"`
	Shapes       map[string]bool        `json:"-"`
	ShapeList    []string               `json:"shapes"` // hashes of distinct non-trivial shapes
	Labels       map[string]int         `json:"labels"`
	Samples      []interface{}          `json:"samples"`
	Excluded     map[string]int         `json:"excluded_by_known_findings"`
	PreMiss      map[string]int         `json:"precondition_miss"`
	Extra        map[string]interface{} `json:"extra,omitempty"`
	KnownFinding []string               `json:"known_findings_reproduced,omitempty"`
	maxSamples   int
}

func newStats(prop string) *Stats {
	return &Stats{Property: prop, Shapes: map[string]bool{}, Labels: map[string]int{}, Excluded: map[string]int{},
		PreMiss: map[string]int{}, Extra: map[string]interface{}{}, maxSamples: 4}
}

func (s *Stats) label(k string, n int) {
	s.mu.Lock()
	s.Labels[k] += n
	s.mu.Unlock()
}

// caseDone records one evaluated case. shape is only used when nontrivial.
func (s *Stats) caseDone(nontrivial bool, shape string, sample func() interface{}) {
	s.mu.Lock()
	defer s.mu.Unlock()
	s.Evaluations++
	if nontrivial {
		s.Nontrivial++
		h := shortHash(shape)
		if !s.Shapes[h] {
			s.Shapes[h] = true
			if len(s.Samples) < s.maxSamples && sample != nil {
				s.Samples = append(s.Samples, sample())
			}
		}
	}
}

func (s *Stats) absorbWorld(w *World) {
	s.mu.Lock()
	defer s.mu.Unlock()
	for k, v := range w.Feat {
		s.Labels["feat:"+k] += v
	}
	for k, v := range w.Excluded {
		s.Excluded[k] += v
	}
	for k, v := range w.PreMiss {
		s.PreMiss[k] += v
	}
}

func (s *Stats) absorbCase(c *Case) {
	s.absorbWorld(c.W)
	s.mu.Lock()
	defer s.mu.Unlock()
	for _, outs := range c.Outcomes {
		for _, o := range outs {
			k := "tx:" + txTypeName(o.Type)
			if o.OK {
				k += ":ok"
			} else {
				k += ":fail:" + o.Reason
			}
			s.Labels[k]++
		}
	}
	s.Labels["blocks"] += len(c.Results)
	if c.EndedBy != "" {
		s.Labels["ended_by:"+c.EndedBy]++
	}
}

func txTypeName(t int32) string {
	switch t {
	case 0:
		return "undecodable"
	case 1:
		return "transfer"
	case 2:
		return "staking"
	case 3:
		return "unstaking"
	case 4:
		return "proposal"
	case 5:
		return "voting"
	case 6:
		return "contract"
	case 7:
		return "setdoc"
	case 8:
		return "withdraw"
	}
	return "unknown"
}

func (s *Stats) write() {
	out := os.Getenv("VERIF_OUT")
	if out == "" {
		return
	}
	s.mu.Lock()
	defer s.mu.Unlock()
	s.ShapeList = s.ShapeList[:0]
	for _, k := range sortedKeys(s.Shapes) {
		s.ShapeList = append(s.ShapeList, k)
	}
	bz, _ := json.MarshalIndent(s, "", " ")
	_ = os.WriteFile(out+"/stats.json", bz, 0o644)
}
