//go:build verif

package harness

import (
	"bytes"
	"encoding/hex"
	"encoding/json"
	"fmt"
	"os"
	"os/exec"
	"path/filepath"
	"strings"
	"testing"
	"time"

	rcrypto "github.com/rigochain/rigo-go/types/crypto"
	"github.com/tendermint/tendermint/crypto/secp256k1"
	tmproto "github.com/tendermint/tendermint/proto/tendermint/types"
	tmtypes "github.com/tendermint/tendermint/types"
	"pgregory.net/rapid"
)

type SOp struct {
	Op    string `json:"op"` // "vote" | "proposal" | "reload"
	Type  int32  `json:"type,omitempty"`
	H     int64  `json:"h,omitempty"`
	R     int32  `json:"r,omitempty"`
	Block int    `json:"block,omitempty"` // 0 = nil block id, 1/2 = two different blocks
	TS    int64  `json:"ts,omitempty"`    // seconds offset
	Chain string `json:"chain,omitempty"`
	POL   int32  `json:"pol,omitempty"`
	// Fault: the state file cannot be replaced while this request is served (the durable write fails and
	// the process dies, as the signer panics); afterwards the file is usable again and the signer is reloaded.
	Fault bool `json:"fault,omitempty"`
}

func blockIDOf(i int) tmproto.BlockID {
	if i == 0 {
		return tmproto.BlockID{}
	}
	h := sha([]byte{byte(i)})
	return tmproto.BlockID{Hash: h, PartSetHeader: tmproto.PartSetHeader{Total: 1, Hash: sha(h)}}
}

type signerModel struct {
	h    int64
	r    int32
	step int8
	// identity of the last signed message, timestamp excluded
	ident string
	ts    int64
	sig   []byte
	has   bool
}

type released struct {
	hrs   string
	ident string
	sig   string
}

func stepOf(op SOp) int8 {
	if op.Op == "proposal" {
		return 1
	}
	if op.Type == int32(tmproto.PrevoteType) {
		return 2
	}
	return 3
}

func identOf(op SOp) string {
	return fmt.Sprintf("%s|%d|%d|%d|%d|%s|%d", op.Op, op.Type, op.H, op.R, op.Block, op.Chain, op.POL)
}

func cmpHRS(h1 int64, r1 int32, s1 int8, h2 int64, r2 int32, s2 int8) int {
	switch {
	case h1 != h2:
		if h1 < h2 {
			return -1
		}
		return 1
	case r1 != r2:
		if r1 < r2 {
			return -1
		}
		return 1
	case s1 != s2:
		if s1 < s2 {
			return -1
		}
		return 1
	}
	return 0
}

// TestC20SecondLife is the second OS process of a C20 sequence: it starts the signer the way the node does and
// asks it for one signature.
func TestC20SecondLife(t *testing.T) {
	arg := os.Getenv("VERIF_C20_SECOND_LIFE")
	if arg == "" {
		t.Skip("driver-only")
	}
	var a struct {
		Key, State, Pass string
		Op               SOp
	}
	if err := json.Unmarshal([]byte(arg), &a); err != nil {
		t.Fatal(err)
	}
	var pass []byte
	if a.Pass != "" {
		pass, _ = hex.DecodeString(a.Pass)
	}
	pv := rcrypto.LoadOrGenSFilePV(a.Key, a.State, pass) // ends the process when it refuses to start
	pub, _ := pv.GetPubKey()
	ts := time.Unix(1_700_000_000, 0).UTC().Add(time.Duration(a.Op.TS) * time.Second)
	var sig []byte
	var serr error
	if a.Op.Op == "vote" {
		v := &tmproto.Vote{Type: tmproto.SignedMsgType(a.Op.Type), Height: a.Op.H, Round: a.Op.R, BlockID: blockIDOf(a.Op.Block), Timestamp: ts, ValidatorAddress: pub.Address()}
		serr = pv.SignVote(a.Op.Chain, v)
		sig = v.Signature
	} else {
		p := &tmproto.Proposal{Type: tmproto.ProposalType, Height: a.Op.H, Round: a.Op.R, PolRound: a.Op.POL, BlockID: blockIDOf(a.Op.Block), Timestamp: ts}
		serr = pv.SignProposal(a.Op.Chain, p)
		sig = p.Signature
	}
	if serr != nil || len(sig) == 0 {
		fmt.Printf("SECOND-LIFE: REFUSED %v\n", serr)
		return
	}
	fmt.Printf("SECOND-LIFE: SIGNED %x\n", sig)
}

// C20: the file-backed signer never double-signs, across reloads.
func TestC20(t *testing.T) {
	st := newStats("C20")
	defer st.write()
	t0 := time.Unix(1_700_000_000, 0).UTC()

	run := func(next func(m *signerModel, n int) *SOp, withPass bool) (ops []SOp, feats map[string]bool, err error) {
		dir := newDataDir()
		defer os.RemoveAll(dir)
		keyPath, statePath := filepath.Join(dir, "key.json"), filepath.Join(dir, "state.json")
		seed := sha([]byte("verif-signer-key"))
		var pass []byte
		if withPass {
			pass = []byte("secret")
		}
		pv := rcrypto.NewSFilePV(secp256k1.PrivKey(seed), keyPath, statePath)
		pv.SaveWith(pass)
		pub, _ := pv.GetPubKey()
		m := &signerModel{}
		feats = map[string]bool{}
		var hist []released
		var lastSigned *SOp
		justReloaded := false
		for {
			op := next(m, len(ops))
			if op == nil {
				// now and then the sequence ends with a second life of the signer whose state file was lost or emptied
				// (another OS process, because a signer that refuses to start ends its process): it must not sign a
				// message that conflicts with the last one this life released
				if m.has && lastSigned != nil && sha([]byte(fmt.Sprintf("%d/%d/%d", len(ops), m.h, m.r)))[0]%48 == 0 {
					how := "removed"
					if len(ops)%2 == 0 {
						how = "emptied"
						_ = os.WriteFile(statePath, nil, 0o600)
					} else {
						_ = os.Remove(statePath)
					}
					conflict := *lastSigned
					conflict.Block = lastSigned.Block%2 + 1
					arg, _ := json.Marshal(map[string]interface{}{"key": keyPath, "state": statePath, "pass": hex.EncodeToString(pass), "op": conflict})
					cmd := exec.Command(os.Args[0], "-test.run", "^TestC20SecondLife$")
					cmd.Env = append(os.Environ(), "VERIF_C20_SECOND_LIFE="+string(arg))
					outb, _ := cmd.CombinedOutput()
					feats["second_life_without_state_file"] = true
					if i := strings.Index(string(outb), "SECOND-LIFE: SIGNED "); i >= 0 {
						sig := strings.Fields(string(outb)[i+len("SECOND-LIFE: SIGNED "):])[0]
						if sig != hex.EncodeToString(m.sig) {
							return ops, feats, fmt.Errorf("after the state file was %s the signer started again and signed %s at (%d,%d,%d), where it had released a signature for %s before", how, identOf(conflict), conflict.H, conflict.R, stepOf(conflict), m.ident)
						}
					} else {
						feats["second_life_refused"] = true
					}
				}
				return ops, feats, nil
			}
			ops = append(ops, *op)
			fail := func(f string, a ...interface{}) ([]SOp, map[string]bool, error) {
				return ops, feats, fmt.Errorf("step %d %+v: %s", len(ops), *op, fmt.Sprintf(f, a...))
			}
			if op.Op == "reload" {
				var perr *PanicError
				if len(ops)%2 == 0 {
					// the way the node itself starts its signer (loads, then writes key and state files again)
					perr = guard("LoadOrGenSFilePV", func() { pv = rcrypto.LoadOrGenSFilePV(keyPath, statePath, pass) })
					feats["reload_through_the_node_start_path"] = true
				} else {
					perr = guard("LoadSFilePV", func() { pv = rcrypto.LoadSFilePV(keyPath, statePath, pass) })
				}
				if perr != nil {
					return fail("reload panicked: %v", perr)
				}
				ls := pv.LastSignState
				if m.has && (ls.Height != m.h || ls.Round != m.r || ls.Step != m.step || !bytes.Equal(ls.Signature, m.sig)) {
					return fail("after reload the last-signed record is (%d,%d,%d), the last released signature was for (%d,%d,%d)", ls.Height, ls.Round, ls.Step, m.h, m.r, m.step)
				}
				if !m.has && (ls.Height != 0 || ls.Step != 0) {
					return fail("after reload a last-signed record exists although nothing was signed")
				}
				justReloaded = true
				continue
			}
			step := stepOf(*op)
			var savedState []byte
			if op.Fault {
				// a directory with something in it where the state file was: the atomic rename over it fails
				savedState, _ = os.ReadFile(statePath)
				_ = os.Remove(statePath)
				_ = os.MkdirAll(filepath.Join(statePath, "x"), 0o700)
			}
			ts := t0.Add(time.Duration(op.TS) * time.Second)
			var signBytes, sig []byte
			var gotTS time.Time
			var serr error
			var perr *PanicError
			if op.Op == "vote" {
				v := &tmproto.Vote{Type: tmproto.SignedMsgType(op.Type), Height: op.H, Round: op.R, BlockID: blockIDOf(op.Block), Timestamp: ts,
					ValidatorAddress: pub.Address(), ValidatorIndex: 0}
				perr = guard("SignVote", func() { serr = pv.SignVote(op.Chain, v) })
				sig, gotTS = v.Signature, v.Timestamp
				signBytes = tmtypes.VoteSignBytes(op.Chain, v)
			} else {
				p := &tmproto.Proposal{Type: tmproto.ProposalType, Height: op.H, Round: op.R, PolRound: op.POL, BlockID: blockIDOf(op.Block), Timestamp: ts}
				perr = guard("SignProposal", func() { serr = pv.SignProposal(op.Chain, p) })
				sig, gotTS = p.Signature, p.Timestamp
				signBytes = tmtypes.ProposalSignBytes(op.Chain, p)
			}
			ident := identOf(*op)
			c := 1
			if m.has {
				c = cmpHRS(op.H, op.R, step, m.h, m.r, m.step)
			} else if op.H < 0 {
				c = -1
			}
			if op.Fault {
				_ = os.RemoveAll(statePath)
				_ = os.WriteFile(statePath, savedState, 0o600)
				if c > 0 {
					// a fresh signature was due but its record could not be made durable: nothing may have been released
					feats["durable_write_failed"] = true
					if len(sig) != 0 {
						return fail("a signature was released although the last-signed record could not be written (the request ended with %v / %v)", perr, serr)
					}
					if perr == nil && serr == nil {
						return fail("the request reports success although the last-signed record could not be written")
					}
					// the process is gone; the next request meets a freshly loaded signer
					if lerr := guard("LoadSFilePV", func() { pv = rcrypto.LoadSFilePV(keyPath, statePath, pass) }); lerr != nil {
						return fail("reload after the failed write panicked: %v", lerr)
					}
					ls := pv.LastSignState
					if m.has && (ls.Height != m.h || ls.Round != m.r || ls.Step != m.step) || !m.has && ls.Height != 0 {
						return fail("after the failed write the durable record is (%d,%d,%d), the last released signature was for (%d,%d,%d)", ls.Height, ls.Round, ls.Step, m.h, m.r, m.step)
					}
					justReloaded = true
					continue
				}
			}
			if perr != nil {
				return fail("signer panicked: %v", perr)
			}
			switch {
			case c < 0:
				if serr == nil {
					return fail("signed at (%d,%d,%d) below the last signed (%d,%d,%d)", op.H, op.R, step, m.h, m.r, m.step)
				}
				feats["regression_rejected"] = true
			case c == 0:
				if ident == m.ident {
					if serr != nil {
						return fail("re-request of the already signed message was refused: %v", serr)
					}
					if !bytes.Equal(sig, m.sig) {
						return fail("re-request returned a different signature")
					}
					if op.TS != m.ts {
						if !gotTS.Equal(t0.Add(time.Duration(m.ts) * time.Second)) {
							return fail("timestamp-only repeat did not get the original timestamp back")
						}
						feats["timestamp_only_repeat"] = true
						if justReloaded {
							feats["timestamp_only_repeat_after_reload"] = true
						}
					} else {
						feats["identical_repeat"] = true
					}
				} else {
					if serr == nil {
						return fail("conflicting message signed at the same height/round/step (%d,%d,%d): first %s, now %s", op.H, op.R, step, m.ident, ident)
					}
					feats["conflict_rejected"] = true
					if justReloaded {
						feats["conflict_rejected_after_reload"] = true
					}
				}
			default:
				if serr != nil {
					return fail("request above the last signed HRS was refused: %v", serr)
				}
				if !pub.VerifySignature(signBytes, sig) {
					return fail("released signature does not verify")
				}
				m.h, m.r, m.step, m.ident, m.ts, m.sig, m.has = op.H, op.R, step, ident, op.TS, append([]byte(nil), sig...), true
				feats["fresh_signature"] = true
				cp := *op
				cp.Fault = false
				lastSigned = &cp
			}
			// history invariant over everything released
			if serr == nil {
				hrs := fmt.Sprintf("%d/%d/%d", op.H, op.R, step)
				for _, r := range hist {
					if r.hrs == hrs && r.ident != ident {
						return fail("two different messages signed for %s", hrs)
					}
				}
				hist = append(hist, released{hrs: hrs, ident: ident, sig: string(sig)})
			}
			justReloaded = false
		}
	}
	finish := func(ops []SOp, feats map[string]bool) {
		for k := range feats {
			st.label("feat:"+k, 1)
		}
		st.label("requests", len(ops))
		shape := ""
		for _, o := range ops {
			shape += fmt.Sprintf("%s%d.%d.%d.%d%v;", o.Op[:1], o.H, o.R, o.Type, o.Block, o.Fault)
		}
		st.caseDone(feats["conflict_rejected_after_reload"] || feats["timestamp_only_repeat_after_reload"], shape, func() interface{} {
			var s []string
			for i, o := range ops {
				if i >= 30 {
					s = append(s, "...")
					break
				}
				s = append(s, fmt.Sprintf("%s type=%d h=%d r=%d block=%d ts=%d chain=%q", o.Op, o.Type, o.H, o.R, o.Block, o.TS, o.Chain))
			}
			return s
		})
	}
	if path := os.Getenv("VERIF_REPLAY"); path != "" {
		var f struct {
			Ops []SOp `json:"ops"`
		}
		bz, err := os.ReadFile(path)
		if err != nil || json.Unmarshal(bz, &f) != nil {
			t.Fatalf("cannot load replay %s", path)
		}
		ops, feats, err := run(func(m *signerModel, n int) *SOp {
			if n >= len(f.Ops) {
				return nil
			}
			return &f.Ops[n]
		}, false)
		finish(ops, feats)
		if err != nil {
			t.Fatalf("C20: %v", err)
		}
		return
	}
	caseNo := 0
	rapid.Check(t, func(rt *rapid.T) {
		n := 3 + unif(rt, 38, "nOps")
		caseNo++
		withPass := caseNo%200 == 0 // a passphrase-locked key file now and then (slow key derivation)
		if withPass && n > 6 {
			n = 6
		}
		ops, feats, err := run(func(m *signerModel, k int) *SOp {
			if k >= n {
				return nil
			}
			if pct(rt, 25, "reload") {
				return &SOp{Op: "reload"}
			}
			op := &SOp{Op: "vote", Chain: "c"}
			if pct(rt, 25, "isProposal") {
				op.Op = "proposal"
				op.POL = int32(pick(rt, []int{-1, -1, 0}, "pol"))
			} else {
				op.Type = int32(pick(rt, []tmproto.SignedMsgType{tmproto.PrevoteType, tmproto.PrecommitType}, "voteType"))
			}
			op.H = m.h + int64(pick(rt, []int{0, 0, 0, 0, 1, 1, 2, -1}, "dh"))
			if !m.has {
				op.H = int64(1 + unif(rt, 3, "h0"))
			}
			op.R = m.r + int32(pick(rt, []int{0, 0, 0, 1, -1}, "dr"))
			if op.H != m.h {
				op.R = int32(unif(rt, 3, "r0"))
			}
			if op.R < 0 {
				op.R = 0
			}
			op.Block = unif(rt, 3, "block")
			op.TS = int64(unif(rt, 2, "ts"))
			if pct(rt, 4, "otherChain") {
				op.Chain = "d"
			}
			op.Fault = pct(rt, 8, "writeFault")
			return op
		}, withPass)
		finish(ops, feats)
		if err != nil {
			dumpOps("C20", ops, len(ops), err.Error())
			rt.Fatalf("C20: %v", err)
		}
	})
}
