//go:build verif

package harness

import (
	"encoding/json"
	"fmt"
	"math"
	"os"
	"sort"
	"strings"

	ethcrypto "github.com/ethereum/go-ethereum/crypto"
	"github.com/holiman/uint256"
	ctypes "github.com/rigochain/rigo-go/ctrlers/types"
	"pgregory.net/rapid"
)

// Profile biases the history generator towards what a property needs.
type Profile struct {
	MinBlocks, MaxBlocks int
	MaxTxs               int
	W                    map[string]int // op weights
	PFault               int            // percent of txs carrying a deliberate fault
	PEvidence            int            // percent of blocks with evidence
	PAbsent              int            // percent chance per validator of missing a block
	PNoProposer          int            // percent of blocks without proposer
	MaxVals              int
	Users                int
	SmallWindows         bool // small signing windows (jailing reachable)
	Limiter              int  // 0 = draw, 1 = force off, 2 = force on
	EarlyQuiet           bool // keep validator stake changes out of blocks 1..3 (F9) and exits out of block 1 (F11)
	PowerTies            bool // stake amounts that make two delegatees equally strong
	F11Narrow            bool // (with EarlyQuiet off) keep out of block 1 only what F11 is about: a genesis validator leaving or being displaced
	OneGenesisUnbond     bool // at most one genesis stake unbonding at a time (F6)
	VaryGas              bool
	ContractGasCap       uint64
	Inject               bool     // generate CheckTx/Query injections (C06, C19)
	Alt                  *Profile // alternative profile used for PAlt percent of the cases
	PAlt                 int
	IsAlt                bool
	InjectAfterOnly      bool // schedule injected calls only after EndBlock / after Commit (engines that serve them while drawing, C19)
	Crowd                int  // percent of the cases run with a crowd (140 users, full blocks): the cache sizes of the ledgers (128) are exceeded within one block
	IsCrowd              bool
	CrowdUsers           int    // size of the crowd when not the default 140
	GasFaults            bool   // half of the deliberate faults are gas/price faults (C16)
	BlockGasBoundary     bool   // now and then a contract-path tx asks for exactly the block gas limit (or one more/less)
	LiveInject           bool   // only prepare fresh valid txs per block; the engine serves them as CheckTx while it drives the primary
	NonceChaos           bool   // more gaps / stale nonces
	GovFocus             string // option documents mostly change this parameter
	TightMaxVals         bool   // validator-count limit close to the number of candidates
	SmallPowers          bool   // powers 1..3 (slashing forfeiture boundary)
	HostileDocs          bool   // option documents that pass validation but are odd
	HostileDocsWide      bool   // ... and the whole list of hostile documents of C09
	Consensus            int    // percent of the votes cast by a not yet decided voter for the option that leads (proposals pass more often)
}

func defaultWeights() map[string]int {
	return map[string]int{
		"transfer": 20, "stake": 14, "unstake": 10, "withdraw": 8, "propose": 6, "vote": 8,
		"setdoc": 4, "deploy": 4, "call": 5, "replay": 4, "raw": 3,
		// generated contract programs (the main diet of C17) in every history
		"deployp": 2, "callp": 5, "transferc": 1,
	}
}

// massExitProfile: many stakes on few validators and frequent (forced) releases, so that several stakes
// mature - several keys leave one ledger - in the same block while others stay.
func massExitProfile() *Profile {
	p := defaultProfile()
	p.MinBlocks, p.MaxBlocks = 14, 36
	p.MaxTxs = 12
	p.Users = 6
	p.PFault = 5
	p.W = map[string]int{"transfer": 8, "stake": 42, "unstake": 30, "withdraw": 4, "propose": 3, "vote": 4, "setdoc": 1, "deploy": 2, "call": 2, "replay": 2, "raw": 1}
	return p
}

// govHeavyProfile: many proposals that change the validator limits, the unbonding period and the fee
// parameters, with tight validator-count limits - histories in which in-memory state derived from the
// governance parameters matters.
func govHeavyProfile() *Profile {
	p := defaultProfile()
	p.MinBlocks, p.MaxBlocks = 12, 34
	p.MaxTxs = 8
	p.MaxVals = 6
	p.TightMaxVals = true
	p.W["propose"], p.W["vote"] = 18, 26
	p.W["stake"], p.W["unstake"] = 16, 10
	p.PAbsent = 3
	p.GovFocus = "maxValidatorCnt"
	p.Consensus = 50
	return p
}

// gasGovProfile: proposals that change the gas price and the minimum gas, with time for them to be applied, and
// txs priced at the old and around the new values.
func gasGovProfile() *Profile {
	p := defaultProfile()
	p.MinBlocks, p.MaxBlocks = 14, 30
	p.MaxTxs = 8
	p.PFault = 20
	p.GasFaults = true
	p.GovFocus = "gasPrice,minTrxGas"
	p.W["propose"], p.W["vote"] = 14, 20
	p.Consensus = 50
	return p
}

func defaultProfile() *Profile {
	return &Profile{MinBlocks: 6, MaxBlocks: 24, MaxTxs: 6, W: defaultWeights(), PFault: 12, PEvidence: 5,
		PAbsent: 6, PNoProposer: 5, MaxVals: 5, Users: 3, SmallWindows: true, EarlyQuiet: true, OneGenesisUnbond: false,
		ContractGasCap: 1_000_000}
}

// Source produces a history step by step (drawn by rapid, or read from a replay file).
type Source interface {
	Genesis() *Genesis
	// StartBlock returns the header part (proposer, votes, evidence) of the next block, nil = history over.
	StartBlock(w *World) *Block
	// NextTx returns the next tx of the current block, nil = block complete.
	NextTx(w *World, b *Block) ([]byte, string)
	// EndBlock lets the source attach schedule markers (restart etc.) once results are known.
	EndBlock(w *World, b *Block)
}

// ---------------------------------------------------------------------------
// rapid-driven source
// ---------------------------------------------------------------------------

type GenSource struct {
	t       *rapid.T
	P       *Profile
	g       *Genesis
	nBlocks int
	blockNo int
	nTx     int
	vals    []*Actor
	users   []*Actor
	all     []*Actor
	sentOK  [][]byte // earlier delivered txs (for replay ops)
	sentAll [][]byte
	fresh   [][]byte         // valid txs built against the state committed before the current block (never delivered)
	offline map[string]int64 // validator address -> offline (not signing) up to and including this height
	// the delegatee of the latest stake-type tx and the height it was generated for
	lastStakeTo   []byte
	lastStakeH    int64
	lastStakeFrom *Actor
	// the latest vote tx generated: voter, proposal, height
	lastVoter  *Actor
	lastVoteID []byte
	lastVoteH  int64
	quiet      int // number of almost empty blocks at the start (marathon variant)
	// number of parameter changes the model had seen when injections were last generated
	paramsChangedSeen int
	// hooks for engines that extend the schedule
	OnEndBlock  func(w *World, b *Block)
	hostileHook func(w *World) ([]byte, string, bool)
}

func draw[T any](t *rapid.T, g *rapid.Generator[T], label string) T { return g.Draw(t, label) }

// unif draws an (almost exactly) uniform value in [0,n) from fair bits. rapid's integer
// generators are deliberately biased towards small values and range ends, which is what we
// want for amounts but not for probabilities and menu choices. All-zero bits (what shrinking
// converges to) give 0.
var bitsGen = map[int]*rapid.Generator[[]bool]{}

func unif(t *rapid.T, n int, label string) int {
	if n <= 1 {
		return 0
	}
	nb := bitsLen(n-1) + 4
	g, ok := bitsGen[nb]
	if !ok {
		g = rapid.SliceOfN(rapid.Bool(), nb, nb)
		bitsGen[nb] = g
	}
	v := 0
	for _, b := range g.Draw(t, label) {
		v <<= 1
		if b {
			v |= 1
		}
	}
	return v % n
}

func bitsLen(x int) int {
	n := 0
	for x > 0 {
		n++
		x >>= 1
	}
	return n
}

// pct is true with probability p percent; shrinks to false.
func pct(t *rapid.T, p int, label string) bool {
	if p <= 0 {
		return false
	}
	if p >= 100 {
		return true
	}
	return unif(t, 1000, label) >= 1000-10*p
}

func pick[T any](t *rapid.T, xs []T, label string) T {
	return xs[unif(t, len(xs), label)]
}

func weighted(t *rapid.T, w map[string]int, label string) string {
	ks := make([]string, 0, len(w))
	tot := 0
	for k, v := range w {
		if v > 0 {
			ks = append(ks, k)
			tot += v
		}
	}
	sort.Strings(ks)
	x := unif(t, tot, label)
	for _, k := range ks {
		if x < w[k] {
			return k
		}
		x -= w[k]
	}
	return ks[len(ks)-1]
}

func NewGenSource(t *rapid.T, p *Profile) *GenSource {
	if os.Getenv("VERIF_NO_EXCLUSIONS") != "" {
		q := *p
		q.EarlyQuiet, q.OneGenesisUnbond = false, false
		p = &q
	}
	if p.Alt != nil && pct(t, p.PAlt, "altProfile") {
		q := *p.Alt
		q.IsAlt = true
		q.EarlyQuiet, q.OneGenesisUnbond = p.EarlyQuiet, p.OneGenesisUnbond
		p = &q
	}
	if p.Crowd > 0 && pct(t, p.Crowd, "crowdCase") {
		q := *p
		q.IsCrowd = true
		q.Users = 140
		q.MaxVals = 3
		q.MinBlocks, q.MaxBlocks = 8, 14
		q.MaxTxs = 70
		if p.CrowdUsers > 0 {
			// a big crowd: several hundred delegators behind a handful of validators
			q.Users, q.MaxTxs, q.MaxVals = p.CrowdUsers, p.CrowdUsers/2, 4
			q.MinBlocks, q.MaxBlocks = 7, 10
		}
		q.PFault = 3
		q.PEvidence, q.PAbsent = 2, 2
		q.W = map[string]int{"transfer": 14, "stake": 52, "unstake": 26, "withdraw": 6, "setdoc": 1, "propose": 1, "vote": 1}
		p = &q
	} else if tier() == "thorough" && pct(t, 35, "largeCase") {
		// deeper bounds in the thorough tier: longer histories, fuller blocks, more actors and validators
		q := *p
		q.MaxBlocks = p.MaxBlocks * 2
		q.MaxTxs = p.MaxTxs + 4
		q.Users = p.Users + 3
		if q.MaxVals < 9 {
			q.MaxVals = p.MaxVals + 3
		}
		p = &q
	}
	s := &GenSource{t: t, P: p}
	s.g = s.genGenesis()
	s.nBlocks = p.MinBlocks + unif(t, p.MaxBlocks-p.MinBlocks+1, "nBlocks")
	if !p.IsCrowd && pct(t, map[string]int{"thorough": 6}[tier()]+4, "marathon") {
		// a long quiet lead-in (almost empty blocks, everybody signs) so that the active part of the history lies
		// around height 100: three-digit heights, ten reward-hash periods, versions the stores have pruned or cached
		// differently than in a young chain
		s.quiet = 84 + unif(t, 16, "quietLeadIn")
		if s.nBlocks > 24 {
			s.nBlocks = 24
		}
		s.nBlocks += s.quiet
	}
	return s
}

func (s *GenSource) Genesis() *Genesis { return s.g }

func (s *GenSource) genParams(nVals int, minValPower int64) *Params {
	t := s.t
	p := baseParams()
	p.MaxValidatorCnt = int64(rapid.IntRange(nVals, nVals+3).Draw(t, "maxValidatorCnt"))
	if s.P.TightMaxVals {
		p.MaxValidatorCnt = int64(nVals + unif(t, 2, "maxValidatorCntTight"))
	}
	p.MinValidatorStake = rigo(uint64(minValPower)).Dec()
	lim := s.P.Limiter
	if lim == 0 {
		lim = 1 + unif(t, 2, "limiter")
	}
	if lim == 2 {
		p.MaxUpdatableStakeRatio = int64(pick(t, []int{33, 50, 90}, "updRatio"))
		p.MaxIndividualStakeRatio = int64(pick(t, []int{33, 60, 100}, "indRatio"))
	}
	p.RewardPerPower = pick(t, []string{"1", "2000000000", "1000000000000000"}, "rewardPerPower")
	p.LazyRewardBlocks = int64(rapid.IntRange(0, 6).Draw(t, "lazyReward"))
	p.LazyApplyingBlocks = int64(rapid.IntRange(0, 3).Draw(t, "lazyApply"))
	if s.P.VaryGas {
		p.GasPrice = pick(t, []string{"1", "10", "250000000000"}, "gasPrice")
		p.MinTrxGas = uint64(pick(t, []int{1, 10, 4000}, "minGas"))
	}
	p.MinVotingPeriodBlocks = int64(rapid.IntRange(1, 2).Draw(t, "minVoting"))
	p.MaxVotingPeriodBlocks = int64(rapid.IntRange(3, 6).Draw(t, "maxVoting"))
	p.MinSelfStakeRatio = int64(pick(t, []int{0, 20, 50}, "minSelfRatio"))
	p.SlashRatio = int64(pick(t, []int{1, 10, 33, 50, 99, 100}, "slashRatio"))
	if s.P.SmallWindows && pct(t, 70, "smallWindow") {
		p.SignedBlocksWindow = int64(rapid.IntRange(3, 12).Draw(t, "window"))
		p.MinSignedBlocks = int64(rapid.IntRange(1, int(p.SignedBlocksWindow+1)/2).Draw(t, "minSigned"))
	}
	return p
}

func (s *GenSource) genGenesis() *Genesis {
	t := s.t
	nVals := 1 + unif(t, s.P.MaxVals, "nVals")
	minValPower := int64(rapid.IntRange(1, 5).Draw(t, "minValPower"))
	g := &Genesis{ChainID: "verif-chain"}
	for i := 0; i < nVals; i++ {
		name := fmt.Sprintf("V%d", i)
		s.vals = append(s.vals, actorNamed(name))
		pw := minValPower + int64(pick(t, []int{0, 1, 9, 9, 50, 100, 1000}, "valPowerExtra"))
		if s.P.SmallPowers {
			pw = minValPower + int64(unif(t, 3, "valPowerSmall"))
		}
		g.Validators = append(g.Validators, GenVal{Actor: name, Power: pw})
		g.Balances = append(g.Balances, GenBal{Actor: name, Balance: rigo(uint64(rapid.IntRange(50, 2000).Draw(t, "valBal"))).Dec()})
	}
	for i := 0; i < s.P.Users; i++ {
		name := fmt.Sprintf("U%d", i)
		s.users = append(s.users, actorNamed(name))
		g.Users = append(g.Users, name)
		if s.P.IsCrowd && i >= 8 {
			// the crowd: same modest balance for everybody (enough for a few small stakes and fees)
			g.Balances = append(g.Balances, GenBal{Actor: name, Balance: rigo(40).Dec()})
			continue
		}
		bal := rigo(uint64(rapid.IntRange(1, 3000).Draw(t, "userBal")))
		if pct(t, 30, "oddBal") {
			bal.Add(bal, u256(uint64(rapid.IntRange(0, 1_000_000_000).Draw(t, "userBalFrac"))))
		}
		g.Balances = append(g.Balances, GenBal{Actor: name, Balance: bal.Dec()})
	}
	s.all = append(append([]*Actor{}, s.vals...), s.users...)
	g.Params = s.genParams(nVals, minValPower)
	return g
}

func (s *GenSource) StartBlock(w *World) *Block {
	t := s.t
	if s.blockNo >= s.nBlocks {
		return nil
	}
	s.blockNo++
	quiet := s.blockNo <= s.quiet
	h := w.H + 1
	b := &Block{}
	cur := setEntries(w.TM.At(h))
	if len(cur) > 0 && !pct(t, s.P.PNoProposer, "noProposer") {
		b.Proposer = pick(t, cur, "proposer").Addr
	}
	if h >= 4 && !quiet && s.P.PAbsent > 0 && pct(t, s.P.PAbsent/2+2, "downtimeStarts") {
		if cur1 := setEntries(w.TM.At(h - 1)); len(cur1) > 0 {
			if s.offline == nil {
				s.offline = map[string]int64{}
			}
			v := pick(t, cur1, "downtimeWho")
			s.offline[ak(v.Addr)] = h - 1 + int64(1+unif(t, int(min64(w.Params.SignedBlocksWindow, 12))+1, "downtimeLen"))
		}
	}
	if h >= 2 {
		for _, e := range setEntries(w.TM.At(h - 1)) {
			signed := quiet || !pct(t, s.P.PAbsent, "absent")
			if until, off := s.offline[ak(e.Addr)]; off && h-1 <= until {
				signed = false
			}
			if !signed && s.P.EarlyQuiet && h <= 3 {
				w.Excluded["F9:absentee_in_blocks_1_3"]++
				signed = true
			}
			b.Votes = append(b.Votes, Vote{Addr: e.Addr, Power: e.Power, Signed: signed})
		}
	}
	hasEv := h >= 2 && !quiet && pct(t, s.P.PEvidence, "hasEvidence")
	if hasEv && s.P.EarlyQuiet && h <= 3 {
		w.Excluded["F9:evidence_in_blocks_1_3"]++
		hasEv = false
	}
	if hasEv {
		n := rapid.IntRange(1, 2).Draw(t, "nEvidence")
		for i := 0; i < n; i++ {
			b.Evidence = append(b.Evidence, s.genEvidence(w, h))
		}
	}
	s.nTx = unif(t, s.P.MaxTxs+1, "nTxs")
	if quiet {
		s.nTx = 0
		if pct(t, 12, "quietTx") {
			s.nTx = 1
		}
		if s.blockNo == s.quiet {
			w.Feat["marathon_lead_in"]++
		}
	}
	s.fresh = nil
	if (s.P.Inject || s.P.LiveInject) && !quiet {
		// fresh valid transactions that only ever reach the mempool check
		saveFault, saveW := s.P.PFault, s.P.W
		s.P.PFault = 0
		s.P.W = map[string]int{"transfer": 4, "stake": 8, "unstake": 5, "withdraw": 3, "propose": 3, "vote": 6, "setdoc": 1, "deploy": 1, "call": 1}
		w.curH = h // txs are built for the coming block
		for i, n := 0, unif(t, 4, "nFresh"); i < n; i++ {
			raw, _ := s.genTx(w, b)
			s.fresh = append(s.fresh, raw)
		}
		s.P.PFault, s.P.W = saveFault, saveW
	}
	return b
}

// genInjections decides, once the block's txs are known, which CheckTx/Query calls the
// noisy replica serves at which ABCI-call boundary of this block.
func (s *GenSource) genInjections(w *World, b *Block) {
	t := s.t
	n := len(b.Txs)
	posGen := func(label string) int { return unif(t, n+4, label) - 1 } // -1 .. n+2
	if s.P.InjectAfterOnly {
		posGen = func(label string) int { return n + 1 + unif(t, 2, label) }
	}
	// (a) mempool checks of the block's own txs (as a real mempool does), at or before their delivery, or later as duplicates
	for i, tx := range b.Txs {
		if pct(t, 60, "checkOwn") {
			pos := i
			switch k := unif(t, 4, "ownPos"); {
			case s.P.InjectAfterOnly:
				pos = posGen("ownPosAfter")
			case k == 0:
				pos = -1
			case k == 1:
				pos = unif(t, i+1, "ownPosBefore")
			case k == 2:
				pos = i
			default:
				pos = posGen("ownPosAny")
			}
			b.Inject = append(b.Inject, Injected{Pos: pos, Kind: "check", Tx: tx})
		}
	}
	// (b) fresh valid txs
	for _, tx := range s.fresh {
		pos := posGen("freshPos")
		if pct(t, 60, "freshInside") && n > 0 {
			pos = unif(t, n+1, "freshPosInside")
		}
		b.Inject = append(b.Inject, Injected{Pos: pos, Kind: "check", Tx: tx})
		if pct(t, 20, "freshDup") {
			b.Inject = append(b.Inject, Injected{Pos: posGen("freshDupPos"), Kind: "check", Tx: tx})
		}
	}
	// (b') the window between EndBlock and Commit, in which whatever EndBlock decided (new parameters, a new
	// validator set, released stakes) is staged but not yet in force: more checks there, certainly when the model
	// says a parameter change was applied in this block
	staged := w.Feat["params_changed"] > s.paramsChangedSeen
	s.paramsChangedSeen = w.Feat["params_changed"]
	if (staged && pct(t, 80, "stagedWindow")) || pct(t, 8, "endWindow") {
		var cand [][]byte
		cand = append(cand, s.fresh...)
		cand = append(cand, b.Txs...)
		if len(s.sentOK) > 0 {
			cand = append(cand, s.sentOK[len(s.sentOK)-1])
		}
		for i, k := 0, 1+unif(t, 2, "nEndWindow"); i < k && len(cand) > 0; i++ {
			b.Inject = append(b.Inject, Injected{Pos: n + 1, Kind: "check", Tx: pick(t, cand, "endWindowTx")})
		}
		if staged {
			w.Feat["check_between_endblock_and_commit_of_param_change"]++
		}
	}
	// (c) garbage
	if pct(t, 30, "garbageCheck") {
		b.Inject = append(b.Inject, Injected{Pos: posGen("garbagePos"), Kind: "check", Tx: s.genRaw(w)})
	}
	// (d) queries
	for i, nq := 0, unif(t, 5, "nQueries"); i < nq; i++ {
		b.Inject = append(b.Inject, s.genQuery(w, posGen("queryPos")))
	}
}

var queryPaths = []string{"account", "delegatee", "stakes", "stakes/total_power", "stakes/voting_power", "reward", "proposal", "gov_params", "vm_call", "nonsense"}

func (s *GenSource) genQuery(w *World, pos int) Injected {
	t := s.t
	q := Injected{Pos: pos, Kind: "query", Path: pick(t, queryPaths, "qPath")}
	switch q.Path {
	case "proposal":
		ks := append(sortedKeys(w.Open), sortedKeys(w.Frozen)...)
		if len(ks) > 0 && pct(t, 70, "qKnownProposal") {
			q.Data = unhx(pick(t, ks, "qProposal"))
		} else if pct(t, 50, "qAllProposals") {
			q.Data = nil
		} else {
			q.Data = txHashOf([]byte("none"))
		}
	case "gov_params", "stakes/total_power", "stakes/voting_power":
	case "vm_call":
		// from(20) + to(20) + calldata: a read-only contract call
		to := pick(t, s.all, "vmTo").Addr
		if ks := sortedKeys(w.Contracts); len(ks) > 0 && pct(t, 80, "vmToContract") {
			to = unhx(pick(t, ks, "vmContract"))
		}
		q.Data = append(append(append([]byte{}, pick(t, s.all, "vmFrom").Addr...), to...), rapid.SliceOfN(rapid.Byte(), 0, 36).Draw(t, "vmCalldata")...)
	default:
		if pct(t, 85, "qKnownAddr") {
			q.Data = pick(t, s.all, "qAddr").Addr
		} else {
			q.Data = pick(t, [][]byte{nil, {1, 2, 3}, actorNamed("ghost").Addr, make([]byte, 40)}, "qOddAddr")
		}
	}
	switch unif(t, 6, "qHeightKind") {
	case 0, 1:
		q.Height = 0
	case 2:
		q.Height = w.H
	case 3:
		if w.H > 1 {
			q.Height = 1 + int64(unif(t, int(w.H), "qPast"))
		}
	case 4:
		q.Height = w.H + 1 + int64(unif(t, 3, "qFuture"))
	case 5:
		q.Height = pick(t, []int64{-1, math.MinInt64, math.MaxInt64}, "qOddHeight")
	}
	return q
}

func min64(a, b int64) int64 {
	if a < b {
		return a
	}
	return b
}

func (s *GenSource) genEvidence(w *World, h int64) Evid {
	t := s.t
	kind := unif(t, 10, "evKind")
	eh := h - 1 - int64(rapid.IntRange(0, 2).Draw(t, "evAge"))
	if eh < 1 {
		eh = 1
	}
	ev := Evid{Type: int32((1 + unif(t, 2, "evType"))), Height: eh}
	set := setEntries(w.TM.At(eh))
	switch {
	case kind <= 6 && len(set) > 0:
		e := pick(t, set, "evVal")
		ev.Addr, ev.Power = e.Addr, e.Power
	case kind <= 8:
		a := pick(t, s.all, "evActor")
		ev.Addr, ev.Power = a.Addr, 1
	default:
		ev.Addr, ev.Power = actorNamed("ghost").Addr, 7
	}
	tot := int64(0)
	for _, e := range set {
		tot += e.Power
	}
	ev.Total = tot
	return ev
}

func (s *GenSource) EndBlock(w *World, b *Block) {
	if s.P.Inject {
		s.genInjections(w, b)
	}
	if s.OnEndBlock != nil {
		s.OnEndBlock(w, b)
	}
}

// ---- transactions ----------------------------------------------------------

func (s *GenSource) NextTx(w *World, b *Block) ([]byte, string) {
	if len(b.Txs) >= s.nTx {
		return nil, ""
	}
	if s.hostileHook != nil {
		if raw, note, ok := s.hostileHook(w); ok {
			s.sentAll = append(s.sentAll, raw)
			return raw, note
		}
	}
	raw, note := s.genTx(w, b)
	s.sentAll = append(s.sentAll, raw)
	return raw, note
}

type txSpec struct {
	from     *Actor
	to       []byte
	amount   *uint256.Int
	gas      uint64
	typ      int32
	payload  ctypes.ITrxPayload
	note     string
	contract bool
}

func (s *GenSource) amountFor(w *World, from *Actor, label string) *uint256.Int {
	t := s.t
	bal := w.acct(from.Addr).Bal
	fee := new(uint256.Int).Mul(u256(w.Params.MinTrxGas), w.Params.gasPrice())
	switch unif(t, 14, label) {
	case 0:
		return u256(0)
	case 1:
		return u256(1)
	case 2:
		return subSat(bal, fee) // exactly everything
	case 3:
		return new(uint256.Int).Add(subSat(bal, fee), u256(1)) // one too much
	case 4:
		return bal.Clone()
	case 5:
		return pick(t, []*uint256.Int{
			new(uint256.Int).Lsh(u256(1), 64), new(uint256.Int).Lsh(u256(1), 255),
			new(uint256.Int).Sub(new(uint256.Int).Lsh(u256(1), 255), u256(1)),
			new(uint256.Int).Not(u256(0)),
		}, "hugeAmt")
	case 6, 7, 8:
		return rigo(uint64(rapid.IntRange(1, 30).Draw(t, "rigoAmt")))
	default:
		return u256(uint64(rapid.IntRange(1, 2_000_000_000).Draw(t, "smallAmt")))
	}
}

var (
	sinkRuntime     = unhx("60005460010160005500")
	reverterRuntime = unhx("60006000fd")
	// CALLER SELFDESTRUCT: pays its whole balance to whoever calls it and is gone
	suiciderRuntime = unhx("33ff")
	// ADDRESS SELFDESTRUCT: destroys itself into itself - whatever it holds is burnt (by EVM definition)
	burnerRuntime = unhx("30ff")
)

func initCodeFor(runtime []byte) []byte {
	// PUSH1 len DUP1 PUSH1 0x0b PUSH1 0 CODECOPY PUSH1 0 RETURN <runtime>
	if len(runtime) > 255 {
		panic("runtime too long for PUSH1")
	}
	init := []byte{0x60, byte(len(runtime)), 0x80, 0x60, 0x0b, 0x60, 0x00, 0x39, 0x60, 0x00, 0xf3}
	return append(init, runtime...)
}

// idleReceiver: the `to` of a transaction type that does not use it. Wallets send the zero address; nothing
// checks it, so it may as well name the sender, somebody with stakes and rewards of his own, or a contract.
func (s *GenSource) idleReceiver(w *World) []byte {
	t := s.t
	switch unif(t, 10, "idleTo") {
	case 0:
		return pick(t, s.all, "idleToActor").Addr
	case 1:
		if ks := sortedKeys(w.Rewards); len(ks) > 0 {
			return unhx(pick(t, ks, "idleToEarner"))
		}
	case 2:
		if ks := sortedKeys(w.Contracts); len(ks) > 0 {
			return unhx(pick(t, ks, "idleToContract"))
		}
	}
	return make([]byte, 20)
}

func (s *GenSource) liveStakes(w *World) []*MStake {
	var out []*MStake
	for _, k := range sortedKeys(w.Delegs) {
		out = append(out, w.Delegs[k].Stakes...)
	}
	return out
}

func (s *GenSource) actorByAddr(addr []byte) *Actor {
	for _, a := range s.all {
		if string(a.Addr) == string(addr) {
			return a
		}
	}
	return nil
}

func (s *GenSource) genTx(w *World, b *Block) ([]byte, string) {
	t := s.t
	h := w.curH
	wts := map[string]int{}
	for k, v := range s.P.W {
		wts[k] = v
	}
	if len(s.sentAll) == 0 {
		wts["replay"] = 0
	}
	if len(w.Contracts) == 0 {
		wts["call"] = 0
	}
	if wts["vote"] > 0 {
		if len(w.Open) == 0 {
			wts["vote"] = 1
		} else {
			wts["vote"] *= 2
		}
	}
	// the per-block stake limiter keeps its books per delegatee: once a stake-type tx (successful or not) went to
	// some delegatee in this block, more stake-type txs follow, often to the same delegatee
	burst := s.lastStakeH == h && s.lastStakeTo != nil
	if burst {
		wts["stake"] *= 3
		wts["unstake"] *= 3
	}
	op := weighted(t, wts, "op")
	if s.P.EarlyQuiet && h <= 1 && (op == "stake" || op == "unstake") {
		w.Excluded["F11:staking_tx_in_block_1"]++
		op = "transfer"
	}
	sp := &txSpec{amount: u256(0), gas: w.Params.MinTrxGas}

	if len(w.Contracts) == 0 && (op == "callp" || op == "transferc") {
		op = "deployp"
	}
	switch op {
	case "deployp", "callp", "transferc":
		return s.finish(w, s.genEVMTx(w, op))
	case "replay":
		raw := pick(t, s.sentAll, "replayOf")
		return raw, "replay"
	case "raw":
		return s.genRaw(w), "raw"
	case "transfer":
		sp.from = pick(t, s.all, "from")
		sp.typ = ctypes.TRX_TRANSFER
		switch unif(t, 10, "toKind") {
		case 0:
			sp.to = sp.from.Addr
		case 1:
			sp.to = make([]byte, 20)
		case 2:
			sp.to = actorNamed(fmt.Sprintf("fresh%d", unif(t, 4, "fresh"))).Addr
		case 3:
			if ks := append(sortedKeys(w.Contracts), sortedKeys(w.Dead)...); len(ks) > 0 {
				sp.to = unhx(pick(t, ks, "toContract"))
				sp.contract = true
				sp.gas = s.P.ContractGasCap
				break
			}
			fallthrough
		default:
			sp.to = pick(t, s.all, "to").Addr
		}
		sp.amount = s.amountFor(w, sp.from, "amtKind")
		sp.payload = &ctypes.TrxPayloadAssetTransfer{}
		sp.note = fmt.Sprintf("transfer %s->%x amt=%s", sp.from.Name, sp.to[:4], sp.amount.Dec())
	case "setdoc":
		sp.from = pick(t, s.all, "from")
		sp.typ = ctypes.TRX_SETDOC
		sp.to = s.idleReceiver(w)
		n := pick(t, []int{0, 1, 8, 2048, 2049}, "nameLen")
		sp.payload = &ctypes.TrxPayloadSetDoc{Name: string(make([]byte, n)), URL: pick(t, []string{"", "http://x", "u"}, "url")}
		sp.note = fmt.Sprintf("setdoc %s len=%d", sp.from.Name, n)
	case "stake":
		sp.typ = ctypes.TRX_STAKING
		sp.from = pick(t, s.all, "from")
		dk := sortedKeys(w.Delegs)
		switch k := unif(t, 10, "stakeTo"); {
		case k <= 2:
			sp.to = sp.from.Addr
		case k <= 8 && len(dk) > 0:
			sp.to = unhx(pick(t, dk, "delegatee"))
		default:
			sp.to = pick(t, s.all, "toAny").Addr
		}
		if burst && pct(t, 50, "sameDelegateeAgain") {
			sp.to = s.lastStakeTo
		} else if burst && s.P.IsCrowd && s.lastStakeFrom != nil && len(dk) > 1 && pct(t, 60, "sameStakerElsewhere") {
			// somebody spreading stake over several validators in one block
			sp.from = s.lastStakeFrom
			for i := 0; i < 4 && string(sp.to) == string(s.lastStakeTo); i++ {
				sp.to = unhx(pick(t, dk, "otherDelegatee"))
			}
		}
		units := uint64(pick(t, []int{1, 1, 2, 3, 5, 10, 50}, "units"))
		if s.P.IsCrowd {
			units = uint64(1 + unif(t, 3, "unitsCrowd"))
		}
		if s.P.SmallPowers {
			units = uint64(1 + unif(t, 3, "unitsSmall"))
		}
		if _, isDeleg := w.Delegs[ak(sp.to)]; !isDeleg && string(sp.to) == string(sp.from.Addr) && pct(t, 85, "enoughSelfStake") {
			units += uint64(w.Params.minValidatorPower())
		}
		if s.P.PowerTies && pct(t, 30, "powerTie") {
			// make the target exactly as strong as somebody else (ranking ties, in particular at the edge of a full set)
			have := int64(0)
			if d, ok := w.Delegs[ak(sp.to)]; ok {
				have = d.total()
			}
			var gaps []int64
			for _, k := range dk {
				if g := w.Delegs[k].total() - have; g > 0 && g <= 2000 {
					gaps = append(gaps, g)
				}
			}
			if len(gaps) > 0 {
				units = uint64(pick(t, gaps, "tieGap"))
			}
		}
		sp.amount = rigo(units)
		switch unif(t, 20, "stakeAmtFault") {
		case 0:
			sp.amount.Add(sp.amount, u256(1))
		case 1:
			sp.amount = u256(0)
		case 2:
			sp.amount = u256(999_999_999_999_999_999)
		}
		if s.P.EarlyQuiet && h <= 3 {
			if _, isDeleg := w.Delegs[ak(sp.to)]; isDeleg || string(sp.to) == string(sp.from.Addr) && s.isGenesisVal(sp.to) {
				w.Excluded["F9:stake_change_on_validator_in_blocks_1_3"]++
				sp.to = actorNamed("nobody").Addr // turns into a failing delegation
			}
		}
		if s.P.F11Narrow && !s.P.EarlyQuiet && h <= 1 {
			// a new validator may join in block 1 only while there is room for everybody (nobody is displaced)
			if _, isDeleg := w.Delegs[ak(sp.to)]; !isDeleg && string(sp.to) == string(sp.from.Addr) && int64(len(w.Delegs))+1 > w.Params.MaxValidatorCnt {
				w.Excluded["F11:displacing_self_stake_in_block_1"]++
				sp.to = actorNamed("nobody").Addr
			}
		}
		sp.payload = &ctypes.TrxPayloadStaking{}
		s.lastStakeTo, s.lastStakeH, s.lastStakeFrom = sp.to, h, sp.from
		sp.note = fmt.Sprintf("stake %s->%x amt=%s", sp.from.Name, sp.to[:4], sp.amount.Dec())
	case "unstake":
		sp.typ = ctypes.TRX_UNSTAKING
		ls := s.liveStakes(w)
		var id []byte
		if s.P.IsCrowd && pct(t, 12, "crowdValidatorExit") {
			// a validator withdraws its own stake: everybody who delegated to it is released at once
			var own []*MStake
			for _, st := range ls {
				if string(st.Owner) == string(st.To) {
					own = append(own, st)
				}
			}
			if len(own) > 0 {
				ls = own
			}
		}
		if burst && pct(t, 50, "sameDelegateeAgainU") {
			var same []*MStake
			for _, st := range ls {
				if string(st.To) == string(s.lastStakeTo) {
					same = append(same, st)
				}
			}
			if len(same) > 0 {
				ls = same
			}
		}
		switch k := unif(t, 10, "unstakeKind"); {
		case k <= 6 && len(ls) > 0: // owner
			st := pick(t, ls, "stake")
			sp.from = s.actorByAddr(st.Owner)
			sp.to, id = st.To, st.TxHash
		case k <= 8 && len(ls) > 0: // somebody else (delegatee or stranger)
			st := pick(t, ls, "stake")
			sp.from = pick(t, s.all, "thief")
			sp.to, id = st.To, st.TxHash
		default:
			sp.from = pick(t, s.all, "from")
			sp.to = pick(t, s.all, "toAny").Addr
			id = txHashOf([]byte(fmt.Sprintf("nostake%d", unif(t, 4, "bogus"))))
			if uk := sortedKeys(w.Unbonding); len(uk) > 0 && pct(t, 50, "unbondingId") {
				u := w.Unbonding[pick(t, uk, "unb")]
				id, sp.to = u.TxHash, u.To
				sp.from = s.actorByAddr(u.Owner)
			}
		}
		if sp.from == nil {
			sp.from = pick(t, s.all, "from2")
		}
		if s.excludeUnstake(w, sp, id, h) {
			id = txHashOf([]byte("excluded"))
		} else if s.wouldEmptyValidators(w, sp, id) && pct(t, 90, "keepLastValidator") {
			id = txHashOf([]byte("keep-last-validator"))
		}
		sp.payload = &ctypes.TrxPayloadUnstaking{TxHash: id}
		s.lastStakeTo, s.lastStakeH = sp.to, h
		sp.note = fmt.Sprintf("unstake %s of %x@%x", sp.from.Name, id[:4], sp.to[:4])
	case "withdraw":
		sp.typ = ctypes.TRX_WITHDRAW
		sp.from = pick(t, s.all, "from")
		// mostly somebody who has something to withdraw
		var earners []*Actor
		for _, a := range s.all {
			if rw, ok := w.Rewards[ak(a.Addr)]; ok && !rw.Cum.IsZero() {
				earners = append(earners, a)
			}
		}
		if len(earners) > 0 && pct(t, 70, "withdrawByEarner") {
			sp.from = pick(t, earners, "earner")
		}
		sp.to = s.idleReceiver(w)
		if len(earners) > 1 && pct(t, 25, "withdrawNamesAnotherEarner") {
			sp.to = pick(t, earners, "otherEarner").Addr
		}
		cum := u256(0)
		if rw, ok := w.Rewards[ak(sp.from.Addr)]; ok {
			cum = rw.Cum.Clone()
		}
		var req *uint256.Int
		switch unif(t, 6, "wdKind") {
		case 0:
			req = u256(0)
		case 1:
			req = cum
		case 2:
			req = new(uint256.Int).Add(cum, u256(1))
		case 3:
			req = new(uint256.Int).Not(u256(0))
		default:
			req = new(uint256.Int).Div(cum, u256(uint64(rapid.IntRange(1, 5).Draw(t, "wdDiv"))))
		}
		if pct(t, 5, "wdAmount") {
			sp.amount = u256(1)
		}
		sp.payload = &ctypes.TrxPayloadWithdraw{ReqAmt: req}
		sp.note = fmt.Sprintf("withdraw %s req=%s cum=%s", sp.from.Name, req.Dec(), cum.Dec())
	case "propose":
		sp.typ = ctypes.TRX_PROPOSAL
		sp.to = s.idleReceiver(w)
		if pct(t, 80, "proposerIsVal") && len(s.vals) > 0 {
			sp.from = pick(t, s.vals, "from")
		} else {
			sp.from = pick(t, s.all, "from")
		}
		p := w.Params
		start := h + int64(pick(t, []int{1, 1, 1, 1, 1, 2, 2, 3, 0, -1}, "startOff"))
		period := p.MinVotingPeriodBlocks + int64(unif(t, int(p.MaxVotingPeriodBlocks-p.MinVotingPeriodBlocks)+1, "period"))
		apply := start + period + p.LazyApplyingBlocks + int64(pick(t, []int{0, 0, 0, 1, 2}, "applyOff"))
		switch unif(t, 40, "propFault") {
		case 0:
			period = p.MinVotingPeriodBlocks - 1
		case 1:
			period = p.MaxVotingPeriodBlocks + 1
		case 2:
			apply = start + period + p.LazyApplyingBlocks - 1
		case 3:
			start = math.MaxInt64
		case 4:
			apply = math.MinInt64
		case 5:
			period = math.MaxInt64 - start + 1
		}
		nopt := pick(t, []int{1, 2, 2, 3}, "nOptions")
		if pct(t, 4, "noOptions") {
			nopt = 0
		}
		var opts [][]byte
		for i := 0; i < nopt; i++ {
			opts = append(opts, s.genOption(w))
		}
		optType := int32(0x0101)
		if pct(t, 10, "commonProposal") {
			optType = 0x0200
		}
		sp.payload = &ctypes.TrxPayloadProposal{Message: "m", StartVotingHeight: start, VotingPeriodBlocks: period, ApplyingHeight: apply, OptType: optType, Options: opts}
		sp.note = fmt.Sprintf("propose %s start=%d period=%d apply=%d opts=%d", sp.from.Name, start, period, apply, nopt)
	case "vote":
		sp.typ = ctypes.TRX_VOTING
		sp.to = s.idleReceiver(w)
		ok := sortedKeys(w.Open)
		var id []byte
		choice := int32(0)
		if len(ok) > 0 && pct(t, 92, "knownProposal") {
			pr := w.Open[pick(t, ok, "proposal")]
			id = pr.TxHash
			var voters []*Actor
			for _, a := range s.all {
				if _, isV := pr.Voters[ak(a.Addr)]; isV {
					voters = append(voters, a)
				}
			}
			if len(voters) > 0 && pct(t, 85, "byVoter") {
				sp.from = pick(t, voters, "voter")
			} else {
				sp.from = pick(t, s.all, "from")
			}
			choice = int32(unif(t, len(pr.Options), "choice"))
			// now and then: a voter of the option that currently holds the majority moves elsewhere
			if lead := leadingOption(pr); lead >= 0 && len(pr.Options) >= 2 && pct(t, 30, "defect") {
				var backers []*Actor
				for _, a := range s.all {
					if v, isV := pr.Voters[ak(a.Addr)]; isV && int(v.Choice) == lead {
						backers = append(backers, a)
					}
				}
				if len(backers) > 0 {
					sp.from = pick(t, backers, "defector")
					choice = int32((lead + 1 + unif(t, len(pr.Options)-1, "defectTo")) % len(pr.Options))
				}
			}
			if s.P.Consensus > 0 && len(pr.Options) > 0 && pct(t, s.P.Consensus, "consensusVote") {
				// the electorate agrees: somebody who has not voted yet backs the option with the most power behind it
				best := 0
				for i, v := range pr.Votes {
					if i < len(pr.Options) && v > pr.Votes[best] {
						best = i
					}
				}
				choice = int32(best)
				var undecided []*Actor
				for _, a := range voters {
					if pr.Voters[ak(a.Addr)].Choice < 0 {
						undecided = append(undecided, a)
					}
				}
				if len(undecided) > 0 {
					sp.from = pick(t, undecided, "undecidedVoter")
				}
			}
			if s.lastVoteH == h && s.lastVoter != nil && pct(t, 25, "voteAgainSameBlock") {
				// the voter of the previous vote tx of this block votes again on the same proposal
				if lp, open := w.Open[hx(s.lastVoteID)]; open {
					pr, id = lp, lp.TxHash
					sp.from = s.lastVoter
					choice = int32(unif(t, len(pr.Options), "choiceAgain"))
				}
			}
			bad := 6
			if v, isV := pr.Voters[ak(sp.from.Addr)]; isV && v.Choice >= 0 {
				bad = 14 // somebody who has voted already: a refused re-vote must leave the first vote alone
			}
			if pct(t, bad, "badChoice") {
				choice = int32(pick(t, []int{-1, len(pr.Options), math.MaxInt32, math.MinInt32}, "badChoiceVal"))
			}
		} else {
			sp.from = pick(t, s.all, "from")
			id = txHashOf([]byte("noproposal"))
			if fk := sortedKeys(w.Frozen); len(fk) > 0 {
				id = w.Frozen[fk[0]].TxHash
			}
		}
		sp.payload = &ctypes.TrxPayloadVoting{TxHash: id, Choice: choice}
		s.lastVoter, s.lastVoteID, s.lastVoteH = sp.from, id, h
		sp.note = fmt.Sprintf("vote %s on %x choice=%d", sp.from.Name, id[:4], choice)
	case "deploy":
		sp.typ = ctypes.TRX_CONTRACT
		sp.from = pick(t, s.all, "from")
		sp.to = make([]byte, 20)
		code := initCodeFor(sinkRuntime)
		tmpl := "sink"
		switch k := unif(t, 100, "deployTemplate"); {
		case k >= 80:
			code, tmpl = initCodeFor(reverterRuntime), "reverter"
		case k >= 62:
			code, tmpl = initCodeFor(suiciderRuntime), "suicider"
		case k >= 52:
			code, tmpl = initCodeFor(burnerRuntime), "burner"
		}
		if pct(t, 30, "deployValue") {
			sp.amount = u256(uint64(rapid.IntRange(1, 1000).Draw(t, "deployVal")))
		}
		sp.gas = s.P.ContractGasCap
		sp.contract = true
		sp.payload = &ctypes.TrxPayloadContract{Data: code}
		sp.note = fmt.Sprintf("deploy %s by %s value=%s", tmpl, sp.from.Name, sp.amount.Dec())
	case "call":
		sp.typ = ctypes.TRX_CONTRACT
		sp.from = pick(t, s.all, "from")
		sp.to = unhx(pick(t, sortedKeys(w.Contracts), "contract"))
		if pct(t, 18, "callPlainAccount") {
			// a contract-type tx may address an account without code (a plain value transfer executed by the EVM)
			sp.to = pick(t, s.all, "callEOA").Addr
		}
		if pct(t, 40, "callValue") {
			sp.amount = s.amountFor(w, sp.from, "callAmtKind")
		}
		sp.gas = s.P.ContractGasCap
		sp.contract = true
		sp.payload = &ctypes.TrxPayloadContract{Data: []byte{1, 2, 3, 4}}
		sp.note = fmt.Sprintf("call %x by %s value=%s", sp.to[:4], sp.from.Name, sp.amount.Dec())
	}
	return s.finish(w, sp)
}

func (s *GenSource) isGenesisVal(addr []byte) bool {
	for _, v := range s.vals {
		if string(v.Addr) == string(addr) {
			return true
		}
	}
	return false
}

// wouldEmptyValidators: releasing this stake would leave no eligible delegatee at all
// (the engine halts on an empty validator set, which only ends the history early).
func (s *GenSource) wouldEmptyValidators(w *World, sp *txSpec, id []byte) bool {
	d, ok := w.Delegs[ak(sp.to)]
	if !ok || sp.from == nil || string(sp.from.Addr) != string(d.Addr) {
		return false
	}
	minP := w.Params.minValidatorPower()
	eligible := 0
	for _, x := range w.Delegs {
		if x.self() >= minP {
			eligible++
		}
	}
	if eligible > 1 || d.self() < minP {
		return false
	}
	for _, st := range d.Stakes {
		if string(st.TxHash) == string(id) && string(st.Owner) == string(d.Addr) {
			return d.self()-st.Power < minP
		}
	}
	return false
}

// excludeUnstake implements the generator-side exclusions for recorded findings.
func (s *GenSource) excludeUnstake(w *World, sp *txSpec, id []byte, h int64) bool {
	var target *MStake
	if d, ok := w.Delegs[ak(sp.to)]; ok {
		for _, st := range d.Stakes {
			if string(st.TxHash) == string(id) && string(st.Owner) == string(sp.from.Addr) {
				target = st
			}
		}
	}
	if target == nil {
		return false
	}
	if s.P.EarlyQuiet && h <= 3 {
		w.Excluded["F9/F11:validator_stake_change_in_blocks_1_3"]++
		return true
	}
	if s.P.F11Narrow && h <= 1 && string(target.Owner) == string(sp.to) && s.isGenesisVal(sp.to) {
		w.Excluded["F11:genesis_validator_unstaking_in_block_1"]++
		return true
	}
	if s.P.OneGenesisUnbond {
		// releasing `target` may force-release every other stake of the delegatee too
		d := w.Delegs[ak(sp.to)]
		wouldRelease := []*MStake{target}
		if string(target.Owner) == string(d.Addr) {
			selfLeft := int64(0)
			for _, st := range d.Stakes {
				if st != target && string(st.Owner) == string(d.Addr) {
					selfLeft += st.Power
				}
			}
			if selfLeft == 0 {
				wouldRelease = d.Stakes
			}
		}
		gen := 0
		for _, st := range wouldRelease {
			if st.Genesis {
				gen++
			}
		}
		for _, u := range w.Unbonding {
			if u.Genesis {
				gen++
			}
		}
		if gen >= 2 {
			w.Excluded["F6:second_genesis_stake_unbonding"]++
			return true
		}
	}
	return false
}

// hostileDocs: option documents of hostile proposals (C09); with HostileDocsWide they are also put into otherwise
// well-formed proposals that get voted on and - if they pass validation - applied.
var hostileDocs = []string{
	``, `{`, `[]`, `null`, `"x"`, `{}`, `{"gasPrice":"10"}`, `{"gasPrice":"-1"}`, `{"gasPrice":"1e9"}`, `{"gasPrice":10}`,
	`{"maxValidatorCnt":"-1"}`, `{"maxValidatorCnt":"99999999999999999999999"}`, `{"minValidatorStake":"0x10"}`,
	`{"slashRatio":"101","signedBlocksWindow":"0"}`, `{"rewardPerPower":""}`, `{"gasPrice":""}`, `{"minTrxGas":"18446744073709551616"}`,
	`{"a":{"b":{"c":[1,2,{"d":null}]}}}`, `{"version":"2","maxValidatorCnt":"3"}`, `{"gasPrice":"10","x":""}`, `{"minValidatorStake":""}`,
	"{\"gasPrice\":\"1\x00\"}", `{"gasPrice":"115792089237316195423570985008687907853269984665640564039457584007913129639936"}`,
	// values that decode and are not negative, but extreme
	`{"signedBlocksWindow":"1"}`, `{"signedBlocksWindow":"1","minSignedBlocks":"9223372036854775807"}`, `{"minSignedBlocks":"9223372036854775807"}`,
	`{"slashRatio":"9223372036854775807"}`, `{"slashRatio":"101"}`, `{"maxValidatorCnt":"9223372036854775807"}`, `{"maxValidatorCnt":"1"}`,
	`{"lazyRewardBlocks":"9223372036854775807"}`, `{"lazyApplyingBlocks":"9223372036854775807"}`, `{"minVotingPeriodBlocks":"9223372036854775807"}`,
	`{"maxVotingPeriodBlocks":"9223372036854775807"}`, `{"version":"9223372036854775807"}`,
	`{"rewardPerPower":"115792089237316195423570985008687907853269984665640564039457584007913129639935"}`,
	`{"gasPrice":"115792089237316195423570985008687907853269984665640564039457584007913129639935"}`,
	`{"minValidatorStake":"115792089237316195423570985008687907853269984665640564039457584007913129639935"}`,
	`{"minDelegatorStake":"115792089237316195423570985008687907853269984665640564039457584007913129639935"}`,
	`{"minTrxGas":"18446744073709551615"}`, `{"maxTrxGas":"1"}`, `{"maxBlockGas":"1"}`, `{"maxBlockGas":"18446744073709551615","maxTrxGas":"18446744073709551615"}`,
	`{"minSelfStakeRatio":"9223372036854775807"}`, `{"maxUpdatableStakeRatio":"9223372036854775807"}`, `{"maxIndividualStakeRatio":"1"}`,
}

var decodableDocs []string

func decodableHostileDocs() []string {
	if decodableDocs == nil {
		for _, d := range hostileDocs {
			if json.Unmarshal([]byte(d), &ctypes.GovParams{}) == nil {
				decodableDocs = append(decodableDocs, d)
			}
		}
	}
	return decodableDocs
}

func (s *GenSource) genOption(w *World) []byte {
	t := s.t
	switch unif(t, 40, "optKind") {
	case 0:
		return []byte("not json")
	case 1:
		return []byte(`{"unknownField":"1"}`)
	case 2:
		return []byte(`{}`)
	case 3:
		return []byte(`{"maxValidatorCnt":3}`) // number instead of string: rejected by the decoder
	}
	if s.P.HostileDocsWide && pct(t, 35, "hostileDocWide") {
		if pct(t, 75, "decodableHostileDoc") {
			// those the application's own decoder accepts are the ones that can be voted through and applied
			return []byte(pick(t, decodableHostileDocs(), "hostileDocDecodablePick"))
		}
		return []byte(pick(t, hostileDocs, "hostileDocWidePick"))
	}
	if s.P.HostileDocs && pct(t, 25, "hostileDoc") {
		return []byte(pick(t, []string{`{"gasPrice":""}`, `{"rewardPerPower":""}`, `{"minValidatorStake":""}`, `{"version":"2","gasPrice":""}`, `{"gasPrice":"10","minDelegatorStake":""}`, `{"x":""}`, `{}`, `{"slashRatio":"7","y":"z"}`}, "hostileDocPick"))
	}
	o := &Params{}
	n := 1 + unif(t, 3, "nFields")
	focus := map[string]int{"maxValidatorCnt": 0, "minValidatorStake": 1, "rewardPerPower": 2, "lazyRewardBlocks": 3, "gasPrice": 5, "minTrxGas": 6, "slashRatio": 7}
	for i := 0; i < n; i++ {
		f := unif(t, 20, "field")
		if s.P.GovFocus != "" && i == 0 && pct(t, 75, "focusField") {
			if fi, ok := focus[pick(t, strings.Split(s.P.GovFocus, ","), "focusWhich")]; ok {
				f = fi
			}
		}
		switch f {
		case 0:
			o.MaxValidatorCnt = int64(rapid.IntRange(1, 6).Draw(t, "oMaxVal"))
		case 1:
			o.MinValidatorStake = rigo(uint64(rapid.IntRange(1, 8).Draw(t, "oMinStake"))).Dec()
		case 2:
			o.RewardPerPower = pick(t, []string{"1", "3000000000", "7"}, "oReward")
		case 3:
			o.LazyRewardBlocks = int64(rapid.IntRange(1, 8).Draw(t, "oLazyReward"))
		case 4:
			o.LazyApplyingBlocks = int64(rapid.IntRange(1, 3).Draw(t, "oLazyApply"))
		case 5:
			o.GasPrice = pick(t, []string{"1", "10", "11", "250000000000"}, "oGasPrice")
		case 6:
			o.MinTrxGas = uint64(pick(t, []int{1, 10, 20, 50, 4000, 21000}, "oMinGas"))
		case 7:
			o.SlashRatio = int64(rapid.IntRange(1, 100).Draw(t, "oSlash"))
		case 8:
			o.MinSelfStakeRatio = int64(rapid.IntRange(1, 60).Draw(t, "oSelfRatio"))
		case 9:
			o.MaxVotingPeriodBlocks = int64(rapid.IntRange(3, 8).Draw(t, "oMaxVoting"))
		case 10:
			o.SignedBlocksWindow = int64(rapid.IntRange(3, 12).Draw(t, "oWindow"))
			o.MinSignedBlocks = int64(rapid.IntRange(1, int(o.SignedBlocksWindow)).Draw(t, "oMinSigned"))
		case 11:
			o.Version = int64(rapid.IntRange(2, 9).Draw(t, "oVersion"))
		case 12: // the window alone (never below the active minimum of signed blocks)
			lo := int(w.Params.MinSignedBlocks)
			if lo < 3 {
				lo = 3
			}
			if lo <= 14 {
				o.SignedBlocksWindow = int64(rapid.IntRange(lo, 14).Draw(t, "oWindowAlone"))
			}
		case 13: // the minimum of signed blocks alone (never above the active window)
			if hi := int(min64(w.Params.SignedBlocksWindow, 14)); hi >= 1 {
				o.MinSignedBlocks = int64(rapid.IntRange(1, hi).Draw(t, "oMinSignedAlone"))
			}
		case 14:
			o.MinDelegatorStake = rigo(uint64(rapid.IntRange(1, 3).Draw(t, "oMinDeleg"))).Dec()
		case 15:
			o.MaxTrxGas = uint64(pick(t, []int{1_000_000, 25_000_000, 30_000_000}, "oMaxTrxGas"))
		case 16:
			o.MaxBlockGas = uint64(pick(t, []int{25_000_000, 50_000_000}, "oMaxBlockGas"))
		case 17:
			o.MinVotingPeriodBlocks = int64(rapid.IntRange(1, 2).Draw(t, "oMinVoting"))
		case 18:
			o.MaxUpdatableStakeRatio = int64(pick(t, []int{33, 50, 90, 100}, "oUpdRatio"))
		case 19:
			o.MaxIndividualStakeRatio = int64(pick(t, []int{33, 60, 100}, "oIndRatio"))
		}
	}
	return optionDoc(o)
}

// optionDoc renders only the set fields (so that "unset keeps previous" is exercised).
func optionDoc(o *Params) []byte {
	m := map[string]string{}
	if o.Version != 0 {
		m["version"] = itoa(o.Version)
	}
	if o.MaxValidatorCnt != 0 {
		m["maxValidatorCnt"] = itoa(o.MaxValidatorCnt)
	}
	if o.MinValidatorStake != "" {
		m["minValidatorStake"] = o.MinValidatorStake
	}
	if o.RewardPerPower != "" {
		m["rewardPerPower"] = o.RewardPerPower
	}
	if o.LazyRewardBlocks != 0 {
		m["lazyRewardBlocks"] = itoa(o.LazyRewardBlocks)
	}
	if o.LazyApplyingBlocks != 0 {
		m["lazyApplyingBlocks"] = itoa(o.LazyApplyingBlocks)
	}
	if o.GasPrice != "" {
		m["gasPrice"] = o.GasPrice
	}
	if o.MinTrxGas != 0 {
		m["minTrxGas"] = itoa(int64(o.MinTrxGas))
	}
	if o.SlashRatio != 0 {
		m["slashRatio"] = itoa(o.SlashRatio)
	}
	if o.MinSelfStakeRatio != 0 {
		m["minSelfStakeRatio"] = itoa(o.MinSelfStakeRatio)
	}
	if o.MaxVotingPeriodBlocks != 0 {
		m["maxVotingPeriodBlocks"] = itoa(o.MaxVotingPeriodBlocks)
	}
	if o.SignedBlocksWindow != 0 {
		m["signedBlocksWindow"] = itoa(o.SignedBlocksWindow)
	}
	if o.MinSignedBlocks != 0 {
		m["minSignedBlocks"] = itoa(o.MinSignedBlocks)
	}
	if o.MinDelegatorStake != "" {
		m["minDelegatorStake"] = o.MinDelegatorStake
	}
	if o.MaxTrxGas != 0 {
		m["maxTrxGas"] = itoa(int64(o.MaxTrxGas))
	}
	if o.MaxBlockGas != 0 {
		m["maxBlockGas"] = itoa(int64(o.MaxBlockGas))
	}
	if o.MinVotingPeriodBlocks != 0 {
		m["minVotingPeriodBlocks"] = itoa(o.MinVotingPeriodBlocks)
	}
	if o.MaxUpdatableStakeRatio != 0 {
		m["maxUpdatableStakeRatio"] = itoa(o.MaxUpdatableStakeRatio)
	}
	if o.MaxIndividualStakeRatio != 0 {
		m["maxIndividualStakeRatio"] = itoa(o.MaxIndividualStakeRatio)
	}
	out := []byte("{")
	for i, k := range sortedKeys(m) {
		if i > 0 {
			out = append(out, ',')
		}
		out = append(out, []byte(fmt.Sprintf("%q:%q", k, m[k]))...)
	}
	return append(out, '}')
}

func (s *GenSource) finish(w *World, sp *txSpec) ([]byte, string) {
	t := s.t
	p := w.Params
	nonce := w.acct(sp.from.Addr).Nonce
	price := p.gasPrice()
	gas := sp.gas
	if s.P.VaryGas && !sp.contract {
		gas = uint64(pick(t, []int{0, 1, 2, 10}, "gasExtra")) + p.MinTrxGas
	}
	if sp.contract && pct(t, 10, "evmGasBoundary") {
		// around the intrinsic-gas boundaries of the EVM path (a plain transfer to a contract is admitted with the
		// native minimum, far below the 21000 the EVM wants)
		gas = pick(t, []uint64{p.MinTrxGas, p.MinTrxGas + 1, 20_999, 21_000, 21_001, 23_000, 52_999, 53_000, 60_000}, "evmGas")
	}
	if s.P.BlockGasBoundary && sp.contract && pct(t, 4, "blockGasBoundary") {
		gas = pick(t, []uint64{25_000_000, 24_999_999, 25_000_001}, "blockGas")
	}
	signer := sp.from
	chain := w.ChainID
	fault := ""
	if s.P.NonceChaos && pct(t, 15, "nonceGap") {
		nonce += uint64(1 + unif(t, 2, "nonceGapBy"))
	}
	if pct(t, s.P.PFault, "fault") {
		fault = pick(t, []string{"nonce+1", "nonce-1", "nonce+5", "price+1", "price-1", "price0", "gasLow", "gas0", "gasHuge", "sigFlip", "otherKey", "otherChain", "noSig", "stranger"}, "faultKind")
		if s.P.GasFaults && pct(t, 50, "gasFault") {
			fault = pick(t, []string{"price+1", "price-1", "gasLow", "gasLow", "gasOld"}, "gasFaultKind")
		}
		switch fault {
		case "nonce+1":
			nonce++
		case "nonce-1":
			nonce--
		case "nonce+5":
			nonce += 5
		case "price+1":
			price = new(uint256.Int).Add(price, u256(1))
		case "price-1":
			price = subSat(price, u256(1))
		case "price0":
			price = u256(0)
		case "gasLow":
			if gas > 0 {
				gas = p.MinTrxGas - 1
			}
		case "gasOld":
			// exactly the minimum and price that were in force at genesis (stale after a governance change)
			if !sp.contract {
				gas = s.g.Params.MinTrxGas
				price = s.g.Params.gasPrice()
			}
		case "gas0":
			gas = 0
		case "gasHuge":
			gas = pick(t, []uint64{1 << 63, math.MaxUint64, math.MaxInt64}, "hugeGas")
		case "otherKey":
			signer = actorNamed("mallory")
		case "otherChain":
			chain = pick(t, []string{"verif-chain2", "verif-chai", "", "verif-chain\n"}, "chain")
		case "stranger":
			sp.from = actorNamed("stranger")
			signer = sp.from
			nonce = 0
		}
	}
	tx := &ctypes.Trx{Version: 1, Time: blockTime0 + w.curH, Nonce: nonce, From: sp.from.Addr, To: sp.to,
		Amount: sp.amount, Gas: gas, GasPrice: price, Type: sp.typ, Payload: sp.payload}
	if fault != "noSig" {
		signTrx(signer, tx, chain)
	}
	if fault == "sigFlip" {
		i := rapid.IntRange(0, 64).Draw(t, "sigByte")
		tx.Sig[i] ^= byte(1 << uint(rapid.IntRange(0, 7).Draw(t, "sigBit")))
	}
	note := sp.note
	if fault != "" {
		note += " !" + fault
	}
	return encodeTrx(tx), note
}

func (s *GenSource) genRaw(w *World) []byte {
	t := s.t
	if len(s.sentAll) > 0 && pct(t, 60, "mutateValid") {
		src := append([]byte(nil), pick(t, s.sentAll, "rawSrc")...)
		switch unif(t, 3, "rawMut") {
		case 0:
			if len(src) > 1 {
				src = src[:rapid.IntRange(0, len(src)-1).Draw(t, "trunc")]
			}
		case 1:
			if len(src) > 0 {
				src[rapid.IntRange(0, len(src)-1).Draw(t, "flipAt")] ^= byte(1 << uint(rapid.IntRange(0, 7).Draw(t, "flipBit")))
			}
		case 2:
			src = append(src, rapid.SliceOfN(rapid.Byte(), 1, 8).Draw(t, "extra")...)
		}
		return src
	}
	return rapid.SliceOfN(rapid.Byte(), 0, 64).Draw(t, "rawBytes")
}

var _ = ethcrypto.Keccak256

// leadingOption: index of an option that currently holds at least the majority threshold, else -1.
func leadingOption(pr *MProposal) int {
	for i, v := range pr.Votes {
		if pr.Voters != nil && pr.Total > 0 && v >= pr.Majority {
			return i
		}
	}
	return -1
}
