# Per-property configuration of the checks (test function, budgets, evidence texts).
COMMON_ASSUME = [
    "generator preconditions of DESIGN.md section 1 (supply bound, genesis validators satisfy the limits, adopted parameter values inside sane ranges)",
    "the harness plays the consensus engine through ABCI exactly as Tendermint 0.34 does (validator-set lag emulated with Tendermint's own ValidatorSet code)",
    "trusted base: rapid v1.3.0, IAVL/goleveldb, go-ethereum (as linked by the repository), the reference model in /verif/harness",
]

PENDING_REASON = "property-based testing applies (see DESIGN.md) but the check is not built/validated yet in this state of the work; not claimed until it is"

ENGINES = [
    {"name": "twin", "path": "harness/c01_test.go harness/c05_test.go harness/c06_test.go harness/c07_test.go harness/c08_test.go", "serves_properties": ["C01", "C05", "C06", "C07", "C08"], "kind_free_text": "differential / metamorphic replicas of the real application fed rapid-generated block histories"},
    {"name": "chain", "path": "harness/world.go harness/world_tx.go harness/chain_test.go", "serves_properties": ["C02", "C04", "C10", "C11", "C12", "C13", "C14", "C15", "C16", "C19"], "kind_free_text": "reference model as conformance checker over rapid-generated block histories"},
    {"name": "evm", "path": "harness/c17_test.go", "serves_properties": ["C17"], "kind_free_text": "differential against vanilla go-ethereum on a unified reference world"},
    {"name": "txsig", "path": "harness/c03_test.go", "serves_properties": ["C03"], "kind_free_text": "metamorphic field mutation + encoder injectivity"},
    {"name": "fuzz", "path": "harness/c09_test.go", "serves_properties": ["C09"], "kind_free_text": "rapid structured/raw hostile inputs + go native fuzzing"},
    {"name": "ledger", "path": "harness/c18_test.go", "serves_properties": ["C18"], "kind_free_text": "stateful model-based test of the versioned ledger"},
    {"name": "signer", "path": "harness/c20_test.go", "serves_properties": ["C20"], "kind_free_text": "stateful model + history invariant of the file signer"},
]

CHECKS = {
    "C01": {
        "test": "TestC01", "level": "exploration", "engine": "twin",
        "technique": "property-based differential testing: rapid-generated block histories on two replicas",
        "level_text": "Exploration: every generated history (all 8 tx types valid and invalid, evidence, absentees, governance parameter sets) is executed on two independently opened replicas and every output the property names (tx code/data/gas, validator updates, app hash) is compared; failures shrink to a replayable concrete history. Determinism cannot be proven by testing; the search is wide because any node-local influence shows up on almost every history that reaches it.",
        "level_note": "Both replicas share the Go runtime/architecture; map iteration seeds, directories, open times and allocation history differ. Thorough tier additionally recomputes transcripts in a second OS process.",
        "quick": {"checks": 60, "timeout": 600},
        "thorough": {"checks": 200, "shards": 15, "timeout": 3000},
        "rule": "rapid-generated block histories (genesis, 8-40 blocks, all tx types valid+invalid, evidence, absentees) executed on two independently opened replicas; non-trivial = a block with >=2 successful txs or a multi-staker reward round, plus a contract tx or a validator-set change; distinct = distinct (tx type,outcome) shape hashes",
        "assumptions": COMMON_ASSUME + ["both replicas run in one OS process (thorough tier adds a second process)"],
    },
}
