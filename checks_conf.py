# Per-property configuration of the checks (test function, budgets, evidence texts).
COMMON_ASSUME = [
    "generator preconditions of DESIGN.md section 1 (supply bound, genesis validators satisfy the limits, adopted parameter values inside sane ranges)",
    "the harness plays the consensus engine through ABCI exactly as Tendermint 0.34 does (validator-set lag emulated with Tendermint's own ValidatorSet code)",
    "trusted base: rapid v1.3.0, IAVL/goleveldb, go-ethereum (as linked by the repository), the reference model in /verif/harness",
]

PENDING_REASON = "property-based testing applies (see DESIGN.md) but the check is not built/validated yet in this state of the work; not claimed until it is"

ENGINES = [
    {"name": "twin", "path": "harness/c01_test.go harness/c05_test.go harness/c06_test.go harness/c07_test.go harness/c08_test.go", "serves_properties": ["C01", "C05", "C06", "C07", "C08"], "kind_free_text": "differential / metamorphic replicas of the real application fed rapid-generated block histories"},
    {"name": "chain", "path": "harness/world.go harness/world_tx.go harness/chain_test.go", "serves_properties": ["C02", "C04", "C10", "C11", "C12", "C13", "C14", "C15", "C16", "C19"], "kind_free_text": "reference model as conformance checker over rapid-generated block histories"},
    {"name": "evm", "path": "harness/c17_test.go", "serves_properties": ["C17"], "kind_free_text": "differential against vanilla go-ethereum on a unified reference world"},
    {"name": "txsig", "path": "harness/c03_test.go", "serves_properties": ["C03"], "kind_free_text": "metamorphic field mutation + encoder injectivity"},
    {"name": "fuzz", "path": "harness/c09_test.go", "serves_properties": ["C09"], "kind_free_text": "rapid structured/raw hostile inputs + go native fuzzing"},
    {"name": "ledger", "path": "harness/c18_test.go", "serves_properties": ["C18"], "kind_free_text": "stateful model-based test of the versioned ledger"},
    {"name": "signer", "path": "harness/c20_test.go", "serves_properties": ["C20"], "kind_free_text": "stateful model + history invariant of the file signer"},
]

CHECKS = {
    "C01": {
        "test": "TestC01", "level": "exploration", "engine": "twin",
        "technique": "property-based differential testing: rapid-generated block histories on two replicas",
        "level_text": "Exploration: every generated history (all 8 tx types valid and invalid, evidence, absentees, governance parameter sets) is executed on two independently opened replicas and every output the property names (tx code/data/gas, validator updates, app hash) is compared; failures shrink to a replayable concrete history. Determinism cannot be proven by testing; the search is wide because any node-local influence shows up on almost every history that reaches it.",
        "level_note": "Both replicas share the Go runtime/architecture; map iteration seeds, directories, open times and allocation history differ. In both tiers a second OS process started with another GOMAXPROCS, GOGC, TZ, locale and working directory re-executes a sample of the histories (12 per run in quick, 40 per shard in thorough; label second_process_histories) and must reproduce the transcript digest.",
        "quick": {"checks": 60, "timeout": 600},
        "thorough": {"checks": 200, "shards": 15, "timeout": 3000, "env": {"VERIF_C01_SAVE_N": "40"}},
        "second_process": {"test": "TestC01Recheck", "save_env": "VERIF_C01_SAVE", "env_dir": "VERIF_C01_RECHECK",
                           "env": {"GOMAXPROCS": "3", "TZ": "Pacific/Kiritimati", "GOGC": "25", "LANG": "tr_TR.UTF-8"}},
        "rule": "rapid-generated block histories (genesis, 8-40 blocks, all tx types valid+invalid, evidence, absentees; 30% of them from a mass-exit profile with 6 users, up to 12 txs per block and mostly staking/unstaking so that several stakes mature - several keys leave one ledger - in one block) executed on two independently opened replicas, on four when the history has a block removing >= 2 keys of one ledger; non-trivial = a block with >=2 successful txs or a multi-staker reward round, plus a contract tx or a validator-set change; distinct = distinct (tx type,outcome) shape hashes",
        "assumptions": COMMON_ASSUME + ["both replicas run in one OS process (thorough tier adds a second process)"],
    },
    "C05": {
        "test": "TestC05", "level": "exploration", "engine": "twin",
        "technique": "property-based metamorphic testing: block with failed txs vs the same block without them, compared by a semantic state digest",
        "level_text": "Exploration with a metamorphic oracle: for every generated history (about half of the txs fail, in every failure class incl. late failures inside controllers and the EVM) a second replica executes each block with exactly the failed txs removed; the remaining tx results, the validator updates and a semantic digest of all committed state (accounts, stakes, unbonding, rewards, proposals, parameters, contract code+storage) must be equal after every block.",
        "level_note": "The digest omits empty accounts (a failed tx may create an empty receiver account, which no query can distinguish from an absent one); app hashes are therefore not compared. The per-block EVM gas pool is kept from being exhausted by generator construction.",
        "quick": {"checks": 120, "timeout": 600},
        "thorough": {"checks": 400, "shards": 15, "timeout": 3000},
        "rule": "rapid-generated block histories with ~50% failing txs of all classes; non-trivial = a tx that failed late (inside a controller or the EVM, after signature/nonce/funds checks) followed by a successful tx in the same block; distinct = distinct (tx type,outcome) shape hashes",
        "assumptions": COMMON_ASSUME,
    },
    "C06": {
        "test": "TestC06", "level": "exploration", "engine": "twin",
        "technique": "property-based differential testing: quiet replica vs replica serving generated CheckTx/Query schedules at ABCI-call boundaries",
        "level_text": "Exploration over schedules at ABCI-call granularity: the noisy replica serves generated CheckTx (the block's own txs before/at/after their delivery, fresh valid txs of all types, duplicates, garbage) and Query calls (all paths, heights past/latest/future/odd) before BeginBlock, between any two DeliverTx, before/after EndBlock and after Commit; every block result and app hash must equal the quiet replica's.",
        "level_note": "Interleaving is at the granularity Tendermint's local ABCI client gives (the application mutex serialises calls); data races inside a call are out of reach.",
        "quick": {"checks": 120, "timeout": 600},
        "thorough": {"checks": 400, "shards": 15, "timeout": 3000},
        "rule": "rapid-generated histories plus injected-call schedules; non-trivial = at least one injected CheckTx returned code 0 between BeginBlock and EndBlock (counted per tx type; staking/unstaking with >=3 validators counted separately); distinct = distinct (tx shape + injection shape) hashes",
        "assumptions": COMMON_ASSUME,
    },
    "C07": {
        "test": "TestC07", "level": "exploration", "engine": "twin",
        "technique": "property-based differential testing: continuous replica vs replica restarted at generated block boundaries",
        "level_text": "Exploration over histories x restart subsets: the second replica is stopped (all DB handles closed) and reopened from its directory at generated boundaries - forced with high probability right after blocks that changed stakes, validator membership or governance parameters and after every 10th block; Info after reopen must equal the last commit and every later block result must equal the continuous replica's.",
        "level_note": "Restart = orderly Stop() + reopen in the same process (crashes are C08).",
        "quick": {"checks": 100, "timeout": 600},
        "thorough": {"checks": 300, "shards": 15, "timeout": 3000},
        "rule": "rapid-generated histories with restart markers; non-trivial = a restart directly followed by a block whose outcome depends on rebuilt memory (validator proposal, staking with limiter, validator-set change, contract call); distinct = distinct (tx shape + restart positions) hashes",
        "assumptions": COMMON_ASSUME,
    },
    "C08": {
        "test": "TestC08", "level": "fault_enumeration", "engine": "twin",
        "technique": "fault enumeration over generated histories: every ABCI boundary and every durable write of Commit as a crash point, snapshot + reopen + replay",
        "level_text": "Fault enumeration: for rapid-generated histories, every crash point of the sampled blocks (quick) / of every block (thorough) is taken - before/after BeginBlock, after each DeliverTx, after EndBlock, after each of the 12-13 durable writes of Commit (named by store through the verifhook callback) and after Commit. The data directory is copied at that instant (what a killed process leaves), a new node is opened on the copy and must report a reconcilable height/hash, replay the interrupted block and follow the never-crashed replica's results for up to two more blocks.",
        "level_note": "Fault model is process death (no torn or reordered disk writes). Finding F8 (the points between the first and the last durable write of a commit bricked the node) is repaired in the repository (rollback of the stores to the last completely committed block when the node opens them); no crash point and no failure mode is tolerated any more, and the stored history of F8 is re-executed with every crash point on every run.",
        "quick": {"checks": 12, "timeout": 900},
        "thorough": {"checks": 14, "shards": 15, "timeout": 3000},
        "rule": "crash points enumerated per block of rapid-generated histories (5-16 blocks; the 10th block, whose commit also writes the reward-hash record, is always among the sampled ones); evaluations = histories, extra.crash_points = examined points per label; non-trivial = a history with at least one examined crash point strictly inside Commit; distinct = distinct (tx shape, number of points) hashes",
        "assumptions": COMMON_ASSUME + ["no background writer touches the data directory while it is copied (goleveldb compaction does not run on these kilobyte-sized stores)"],
    },
    "C09": {
        "test": "TestC09", "level": "exploration", "engine": "fuzz",
        "technique": "property-based robustness testing: structured hostile transactions/queries and raw byte mutations (rapid), plus go native coverage-guided fuzzing in the thorough tier",
        "level_text": "Exploration: inside generated block histories more than half of the delivered txs are hostile envelopes (every field hostile: address lengths 0..40, 256-bit amounts, gas 0/2^63/2^64-1, types -3..12, payloads of the right or wrong type with hostile contents, option documents that are not JSON/nested/signed numbers, 5000-byte names), most of them correctly signed by a funded account with the right nonce and price so they reach the controllers, some byte-mutated; hostile CheckTx and Query calls (all paths incl. vm_call, data lengths 0..80, heights -2^63..2^63-1) and CheckTx of ordinary valid transactions are served before BeginBlock, inside and between blocks; the node is stopped and reopened after 12% of the blocks, so requests also meet a freshly started node that has not executed a block yet (labels restarts, checktx_ok). Oracle: every call returns, no panic (recovered and reported), afterwards a canned valid transfer still succeeds and commits.",
        "level_note": "Protocol violations by the consensus engine itself (DeliverTx outside a block, wrong heights) are not external input and are not generated. vm_call needs rpc/core's environment; the harness installs a fake BlockStore knowing the headers it fed.",
        "quick": {"checks": 400, "timeout": 600},
        "thorough": {"checks": 3000, "shards": 15, "timeout": 3000},
        "fuzz": {"targets": ["FuzzDeliverTx", "FuzzCheckTx", "FuzzQuery"], "seconds": 100, "tiers": ["thorough"]},
        "rule": "rapid-generated histories with hostile DeliverTx/CheckTx/Query inputs; non-trivial = at least one delivered tx decoded and reached a controller (succeeded or failed late); labels count accepted hostile CheckTx and query answers per path; distinct = distinct (tx type,outcome) shape hashes",
        "assumptions": COMMON_ASSUME,
    },
    "C03": {
        "test": "TestC03", "level": "exploration", "engine": "txsig",
        "technique": "property-based testing: encoder injectivity on generated transaction pairs + end-to-end metamorphic mutation of signed transactions on a live application with a twin",
        "level_text": "Exploration in two layers. (a) For generated transactions of all 8 types with fields over their full ranges and a semantic mutation of 1-3 fields (or of the chain id, incl. prefix/suffix/newline-bearing ids) the signed preimages must differ whenever the executed tuples differ after a protobuf round trip. (b) On a live application with generated prior history (which itself carries forged transactions of every type - flipped, foreign or missing signatures, other chain id - and in which every accepted transaction must recover its sender): a valid signed tx that would succeed is mutated (any field, payload, signature bytes, malleated signature, claimed sender, other key, other chain id) and delivered; whenever the executed tuple differs from the signed one or the signature does not recover the sender for this chain (recomputed independently with SigToPub over the delivered fields) it must fail and the semantic state digest must equal the twin's that never saw it.",
        "level_note": "ECDSA malleability (r,n-s,v^1) is another valid signature by the same key over the same fields and is allowed to succeed; protobuf re-encodings of the same tuple are outside the statement. Injectivity is shown on generated pairs, not cryptographic unforgeability.",
        "quick": {"checks": 250, "timeout": 600},
        "thorough": {"checks": 1000, "shards": 15, "timeout": 3000},
        "rule": "per rapid case 30 (tx, mutated tx) pairs + 3-6 end-to-end mutants on a live app; non-trivial case = at least one mutant that must fail AND passes every non-signature check (CheckTx, which does not verify signatures, returns 0 for it); distinct = distinct pair mutation shapes + distinct mutant shapes",
        "assumptions": COMMON_ASSUME,
    },
    "C18": {
        "test": "TestC18", "level": "exploration", "engine": "ledger",
        "technique": "stateful model-based property testing of ledger.FinalityLedger against a map-with-two-overlays-and-history model",
        "level_text": "Exploration with a reference model: generated sequences (<= 60 steps over 1..16 keys) of SetFinality/GetFinality/DelFinality, Set/Get/Del, Read, both iterators, Commit, historical reads at any version (incl. beyond the tip), close+reopen and the cancel operations in the shapes real callers use, applied to three real ledger instances and to the model; every read is compared with the model and the instances must return equal versions and root hashes. 35% of the sequences use 9..16 keys, 45% start from a populated committed tree and deletes come in bursts, so that commits removing several keys of a tree with >= 5 keys (where the removal order changes the IAVL root) are frequent (label feat:commit_removing_2+_keys_of_5+).",
        "level_note": "Items are fresh immutable values (aliasing of cached objects is a controller concern, covered by C05). Deletes are only generated for keys visible in the respective view, as every real caller does.",
        "quick": {"checks": 1500, "timeout": 600},
        "thorough": {"checks": 20000, "shards": 15, "timeout": 3000},
        "rule": "rapid-generated operation sequences; non-trivial = sequence contains delete->set->get of one key inside one commit interval, or a historical read after >= 2 later commits, or a reopen with a non-empty overlay; distinct = distinct operation-sequence hashes",
        "assumptions": ["trusted base: rapid v1.3.0, IAVL/goleveldb, the map model in c18_test.go"],
    },
    "C20": {
        "test": "TestC20", "level": "exploration", "engine": "signer",
        "technique": "stateful model-based property testing of SFilePV plus a model-free history invariant, with reload between requests",
        "level_text": "Exploration with a reference model and a model-free invariant: generated sequences (<= 40) of SignVote/SignProposal requests with heights/rounds/steps moving forward, repeating and regressing, equal/different/nil block ids, timestamps and chain ids, with LoadSFilePV from the key and state files between any two requests, and with an injected fault on 8% of the requests: the state file cannot be replaced while the request is served (the durable write fails, the signer panics = the process dies), after which no signature may have been released, the durable record must still be the previous one and a freshly loaded signer continues. Model: regress => error; same HRS and same message => same signature; same HRS differing only in timestamp => original signature and timestamp; same HRS otherwise => error; advance => signature verifies. Invariant over all released signatures: never two different messages for one HRS; after every reload the on-disk record equals the last released HRS.",
        "level_note": "The injected fault is a failing atomic replace of the state file (a non-empty directory in its place); a crash after the rename succeeded is equivalent to the state after the request and is covered by the reloads. Only the vote types Tendermint passes are generated.",
        "quick": {"checks": 3000, "timeout": 600},
        "thorough": {"checks": 40000, "shards": 15, "timeout": 3000},
        "rule": "rapid-generated request sequences; non-trivial = a conflicting same-HRS request or a timestamp-only repeat issued right after a reload (label feat:durable_write_failed counts sequences with an injected write fault on a request that needed a fresh signature); distinct = distinct request-sequence hashes",
        "assumptions": ["trusted base: rapid v1.3.0, tendermint's canonical sign-bytes and secp256k1 verification"],
    },
}

CHAIN_NOTE = "Reference model as conformance checker: the observed DeliverTx code is an input; for code 0 the necessary conditions the property states are asserted and the specified effect is applied to the model; block-level rules are predicted by the model; after every block the relevant part of the committed state (read through tag-guarded accessors and queries) is compared. Contract txs in these histories come from four fixed templates with known effect - a storage sink, a reverter, a contract that self-destructs to its caller and one that self-destructs into itself (which burns its balance by EVM definition; accounted as destroyed value) - (C17 covers general EVM programs). While it executes the history the replica also serves mempool checks (CheckTx of the block's own txs before their delivery and of fresh valid txs at the call boundaries) and is stopped and reopened at generated block boundaries (labels feat:checktx_ok_served, feat:restart): the property has to hold on a node that does what real nodes do. Known findings F9/F11 (chain start) are excluded by construction and counted."

def chain(test, technique, text, rule, quick=150, thorough=500, note=CHAIN_NOTE):
    return {"test": test, "level": "exploration", "engine": "chain", "technique": technique, "level_text": text, "level_note": note,
            "quick": {"checks": quick, "timeout": 600}, "thorough": {"checks": thorough, "shards": 15, "timeout": 3000},
            "rule": rule, "assumptions": COMMON_ASSUME}

CHECKS.update({
    "C02": chain("TestC02", "property-based history invariant: global value sum against independently accounted withdrawals, slashing and proposer-less fees",
        "Exploration: after every block of generated histories (transfers incl. to self/zero/fresh addresses, staking, delegation, unstaking, withdrawals, value-carrying contract deployments/calls, failed txs, evidence, jailing, proposer-less blocks, boundary amounts 0/1/balance+-1/2^64/2^255/2^256-1) the sum of all account balances (iterated over the whole committed account ledger) + bonded + unbonding power*10^18 must equal genesis total + successfully withdrawn rewards - power slashed by the reference rule - fees of proposer-less blocks; no balance >= 2^255 may appear.",
        "rapid-generated histories of 10-40 blocks biased to value movement; non-trivial = history with a matured refund, a slash/forfeiture, delete-and-recreate of a delegatee in one block, >=2 stakes unbonding concurrently, jailing or proposer-less fees; distinct = distinct shape hashes"),
    "C04": chain("TestC04", "property-based history invariant over per-account nonce sequences with replay/duplicate/out-of-order injection",
        "Exploration: histories in which every sender's txs (native and contract path) are delivered with gaps, stale nonces, duplicated inside a block and replayed in later blocks; a success must carry exactly the account's current nonce, no byte-identical tx may succeed twice in the whole history, and after every block each account's committed nonce must equal its previous nonce plus the number of its successful txs (failed txs leave it unchanged).",
        "rapid-generated histories with ~14% replays and 15% nonce gaps; non-trivial = a successful tx was delivered again later AND a nonce-rejected tx AND a contract-path success; distinct = distinct shape hashes"),
    "C10": chain("TestC10", "property-based testing against a reference top-N selection, with Tendermint's own ValidatorSet.UpdateWithChangeSet as acceptance oracle",
        "Exploration: every update list must be accepted by Tendermint's ValidatorSet code (no duplicates, no removal of non-members, no negative power); after folding, set(h+2) must have min(#eligible, max) members taken from the delegatees whose own power meets the minimum in the book committed by block h-1 (parameters active in block h), each with voting power = total bonded power, and no excluded candidate may have strictly more power than an included one (ties at the cut are free). Generators push on the boundaries: validator-count limit = number of candidates, equal powers, top-ups across the minimum, unstake-to-zero, slashing, jailing streaks, governance changes of the limits.",
        "rapid-generated histories of 10-40 blocks biased to stake movement; non-trivial = the set changed after block 2 (join, leave, power change); distinct = distinct shape hashes"),
    "C11": chain("TestC11", "property-based testing against a reference stake book plus internal-consistency invariants of the committed stake ledgers",
        "Exploration: after every block, for each committed delegatee totalPower = sum of its stakes and selfPower = sum of its owner's stakes; every stake appears exactly once in (bonded or unbonding); the bonded and unbonding sets equal the reference stake book (ids, owners, targets, powers changed only by the reference slashing rule); stakes/total_power equals the sum.",
        "rapid-generated histories biased to several stake operations on one delegatee per block; non-trivial = a block with >=2 successful operations on one delegatee, a forced unbonding, or delete-and-recreate; distinct = distinct shape hashes"),
    "C12": chain("TestC12", "property-based testing against a reference stake book: owner-only release, refund height, exactly-once credit",
        "Exploration: a successful unstake must come from the stake's owner; the unbonding ledger must equal the reference set after every block with refund height = release height + period active at release (periods 0..8 changed by governance while stakes unbond); the owner's balance must change by exactly power*10^18 in the block where the refund is due (first block end with height >= refund height at which the stake is committed as unbonding) and accounts without any model effect must not change.",
        "rapid-generated histories of 10-40 blocks; non-trivial = >=2 stakes refunded in one block or a refund after a governance change of the period; distinct = distinct shape hashes"),
    "C13": chain("TestC13", "property-based testing against a reference reward ledger driven by generated LastCommitInfo",
        "Exploration: at block h every stake recorded in the reference snapshot of height h-4 under a validator that signed earns power*rewardPerPower(active), nobody else earns; the reward event's issued attribute equals the block total; withdrawable reward = issued - withdrawn for every account after every block; a withdrawal succeeds only up to that amount and changes the balance by exactly the requested amount minus the fee. Signing patterns, absentee streaks, stake changes (lag visible) and governance changes of rewardPerPower are generated.",
        "rapid-generated histories of 15-45 blocks; non-trivial = a reward round whose paying snapshot differs from the current stake book and a successful withdrawal; distinct = distinct shape hashes"),
    "C14": chain("TestC14", "property-based testing against a reference slashing/jailing rule with frame condition",
        "Exploration: with evidence in ~30% of the blocks (validators, ex-validators, plain accounts, unknown addresses, duplicates) and absentee streaks against windows 3..12, after every block the whole stake book, unbonding set, proposals (voter powers, cast votes, totals), rewards and every account balance/nonce must equal the reference: each stake of a named delegatee loses floor(power*ratio/100) or is forfeited, its voter entry in open proposals shrinks likewise, nothing else changes. Jailing is two-sided with one height of slack (window of W or W+1 heights): where both readings agree the model's verdict is binding.",
        "rapid-generated histories with small powers (forfeiture boundary); non-trivial = evidence against a delegatee with delegators, or against a recorded voter of an open proposal, or a jailing that fires; distinct = distinct shape hashes"),
    "C15": chain("TestC15", "property-based testing against a reference governance model (snapshot, tally, freeze, apply, merge)",
        "Exploration: proposals by validators/non-validators with heights around every bound, option documents valid/partial/odd, votes and re-votes by snapshot members and outsiders at start-1..end+1, slashing of voters meanwhile. Asserted: necessary conditions of accepted proposals and votes; the recorded voter snapshot equals a validator set of the engine's lag window and contains the proposer; tallies with replace-on-revote; after every block the proposal query (status, voters, per-option votes), the gov_params query and the parameters active in the application equal the reference; parameters only change when a frozen proposal is applied, to a merge of its winning option over the previous set; applying never panics.",
        "rapid-generated histories of 12-40 blocks with voting periods 1..6; non-trivial = a proposal reached 'applied'; distinct = distinct shape hashes"),
    "C16": chain("TestC16", "property-based testing of exact fee arithmetic: sender debit, proposer credit, admission by price/min-fee",
        "Exploration: every successful tx must carry the active gas price and gas*price >= minimum fee; native success: gasUsed = gasWanted = gas limit and the sender's balance change equals -(amount + gas*price); contract-path success: gasUsed <= limit and fee = gasUsed*price; per block, the balance change of every account touched only by fees/transfers/contract calls/proposer credit must equal the reference change, the proposer being credited exactly the sum of the fees of the block's successful txs. Gas prices 1/10/250e9, min gas 1/10/4000 and governance changes of both are generated.",
        "rapid-generated histories with up to 12 txs per block; non-trivial = a block with >=2 fee-paying successes of both the native and the contract path; distinct = distinct shape hashes"),
})

CHECKS["C19"] = chain("TestC19", "property-based testing of recorded per-height query answers: immutability, height-0 alias, agreement with the reference model, isolation from executing blocks, mempool checks and restarts",
    "Exploration: after every commit the answer of every listed query path for every key the model knows (and unknown keys) is recorded and checked against the reference model's state of that height; later - after BeginBlock, after each DeliverTx of an executing block, between blocks, after injected CheckTx calls of fresh valid txs and after restarts - generated (path, key, height) re-asks must return the recorded value for past heights, the last committed value for height 0 (also mid-block, for keys the executing block already changed) and an error beyond the tip; a quiet twin that served no query must commit the same hashes.",
    "rapid-generated histories of 8-26 blocks with injected mempool checks and ~12% restarts; non-trivial = a re-ask of a height >= 3 blocks old for a key whose answer changed since, or a mid-block height-0 ask for a key changed by a preceding successful DeliverTx of that block; distinct = distinct shape hashes",
    quick=80, thorough=250,
    note=CHAIN_NOTE + " Answers are compared as values (JSON canonicalised): the proposal query renders its voter map in Go's random map order. stakes/voting_power is evaluated with the current limits by design and is not among the paths the property lists.")

CHECKS["C17"] = {
    "test": "TestC17", "level": "exploration", "engine": "evm",
    "technique": "property-based differential testing against vanilla go-ethereum on a unified reference world, with generated contract programs",
    "level_text": "Exploration with a differential oracle: contract programs are generated from a small IR (SSTORE, LOGn, CALL/STATICCALL/DELEGATECALL with value, gas caps and revert-if-failed/record-result, CREATE of child templates, SELFDESTRUCT, REVERT/RETURN/INVALID, conditionals on calldata, expressions over SLOAD, CALLVALUE, BALANCE, SELFBALANCE, CALLER, ORIGIN, COINBASE, NUMBER, TIMESTAMP, GASLIMIT, CHAINID, BASEFEE, DIFFICULTY, BLOCKHASH, GAS, GASPRICE, EXTCODESIZE, CODESIZE, CALLDATASIZE, RETURNDATASIZE; REVERT/RETURN with honest and broken ABI-shaped data) and assembled in the harness; call targets are passed in calldata (EOAs touched or not, other contracts, self, precompiles 1-4, fresh addresses). Histories mix deployments, calls with value, plain transfers to contract addresses, native transfers/staking/withdrawals on the same accounts and read-only vm_call queries at the latest and recent heights. Every admitted contract-path tx is executed on a vanilla go-ethereum StateDB holding the model's balances and nonces (this chain's rule: a failed tx leaves no trace); success/failure, return data, gas used and logs must agree per tx, and after every block the balances and nonces of all accounts, the code and storage slots of every touched contract and the native code markers must agree; vm_call must equal a reference call on a copy of the world and a quiet twin must commit the same hashes.",
    "level_note": "go-ethereum's interpreter (as linked by the repository) is the reference EVM: an interpreter bug shared by both sides is invisible. Precompile 1 is replaced by the repository for both sides alike. Findings F10a/F10b/F10c are repaired in the repository; their stored histories are re-executed on every run and must pass. Addresses of self-destructed contracts stay addressable; for a later plain transfer to one the check accepts the EVM or the native path (no property fixes it) and checks the charge of the path taken; the native code marker the application keeps for such addresses is not compared.",
    "quick": {"checks": 150, "timeout": 900},
    "thorough": {"checks": 400, "shards": 15, "timeout": 3000},
    "rule": "rapid-generated programs and histories of 6-22 blocks; 35% of the programs start with a pattern group around the ledger<->EVM synchronisation (a call that is starved of gas or sent to another selector and whose failure is tolerated, followed by more value to the same or another argument address; a callee that pays somebody and then reverts); non-trivial = a successful call of a generated contract in a history that also has successful native value operations; labels count compared txs, reference-side failures (revert/out-of-gas/nested), successful txs containing a failed inner frame (feat:evm_ok_tx_with_failed_inner_frame), value sent later to the target of a failed frame, addresses first touched inside a failed frame and touched again, inner creates, self-destructs, logs, burns and compared vm_calls; distinct = distinct shape hashes",
    "assumptions": COMMON_ASSUME,
}
