# Per-property configuration of the checks (test function, budgets, evidence texts).
COMMON_ASSUME = [
    "generator preconditions of DESIGN.md section 1 (supply bound, genesis validators satisfy the limits, adopted parameter values inside sane ranges)",
    "the harness plays the consensus engine through ABCI exactly as Tendermint 0.34 does (validator-set lag emulated with Tendermint's own ValidatorSet code)",
    "trusted base: rapid v1.3.0, IAVL/goleveldb, go-ethereum (as linked by the repository), the reference model in /verif/harness",
]

PENDING_REASON = "property-based testing applies (see DESIGN.md) but the check is not built/validated yet in this state of the work; not claimed until it is"

ENGINES = [
    {"name": "twin", "path": "harness/c01_test.go harness/c05_test.go harness/c06_test.go harness/c07_test.go harness/c08_test.go", "serves_properties": ["C01", "C05", "C06", "C07", "C08"], "kind_free_text": "differential / metamorphic replicas of the real application fed rapid-generated block histories"},
    {"name": "chain", "path": "harness/world.go harness/world_tx.go harness/chain_test.go", "serves_properties": ["C02", "C04", "C10", "C11", "C12", "C13", "C14", "C15", "C16", "C19"], "kind_free_text": "reference model as conformance checker over rapid-generated block histories"},
    {"name": "evm", "path": "harness/c17_test.go", "serves_properties": ["C17"], "kind_free_text": "differential against vanilla go-ethereum on a unified reference world"},
    {"name": "txsig", "path": "harness/c03_test.go", "serves_properties": ["C03"], "kind_free_text": "metamorphic field mutation + encoder injectivity"},
    {"name": "fuzz", "path": "harness/c09_test.go", "serves_properties": ["C09"], "kind_free_text": "rapid structured/raw hostile inputs + go native fuzzing"},
    {"name": "ledger", "path": "harness/c18_test.go", "serves_properties": ["C18"], "kind_free_text": "stateful model-based test of the versioned ledger"},
    {"name": "signer", "path": "harness/c20_test.go", "serves_properties": ["C20"], "kind_free_text": "stateful model + history invariant of the file signer"},
]

CHECKS = {
    "C01": {
        "test": "TestC01", "level": "exploration", "engine": "twin",
        "technique": "property-based differential testing: rapid-generated block histories on two replicas",
        "level_text": "Exploration: every generated history (all 8 tx types valid and invalid, evidence, absentees, governance parameter sets) is executed on two independently opened replicas and every output the property names (tx code/data/gas, validator updates, app hash) is compared; failures shrink to a replayable concrete history. Determinism cannot be proven by testing; the search is wide because any node-local influence shows up on almost every history that reaches it.",
        "level_note": "Both replicas share the Go runtime/architecture; map iteration seeds, directories, open times and allocation history differ. Thorough tier additionally recomputes transcripts in a second OS process.",
        "quick": {"checks": 60, "timeout": 600},
        "thorough": {"checks": 200, "shards": 15, "timeout": 3000},
        "rule": "rapid-generated block histories (genesis, 8-40 blocks, all tx types valid+invalid, evidence, absentees) executed on two independently opened replicas; non-trivial = a block with >=2 successful txs or a multi-staker reward round, plus a contract tx or a validator-set change; distinct = distinct (tx type,outcome) shape hashes",
        "assumptions": COMMON_ASSUME + ["both replicas run in one OS process (thorough tier adds a second process)"],
    },
    "C05": {
        "test": "TestC05", "level": "exploration", "engine": "twin",
        "technique": "property-based metamorphic testing: block with failed txs vs the same block without them, compared by a semantic state digest",
        "level_text": "Exploration with a metamorphic oracle: for every generated history (about half of the txs fail, in every failure class incl. late failures inside controllers and the EVM) a second replica executes each block with exactly the failed txs removed; the remaining tx results, the validator updates and a semantic digest of all committed state (accounts, stakes, unbonding, rewards, proposals, parameters, contract code+storage) must be equal after every block.",
        "level_note": "The digest omits empty accounts (a failed tx may create an empty receiver account, which no query can distinguish from an absent one); app hashes are therefore not compared. The per-block EVM gas pool is kept from being exhausted by generator construction.",
        "quick": {"checks": 120, "timeout": 600},
        "thorough": {"checks": 400, "shards": 15, "timeout": 3000},
        "rule": "rapid-generated block histories with ~50% failing txs of all classes; non-trivial = a tx that failed late (inside a controller or the EVM, after signature/nonce/funds checks) followed by a successful tx in the same block; distinct = distinct (tx type,outcome) shape hashes",
        "assumptions": COMMON_ASSUME,
    },
    "C06": {
        "test": "TestC06", "level": "exploration", "engine": "twin",
        "technique": "property-based differential testing: quiet replica vs replica serving generated CheckTx/Query schedules at ABCI-call boundaries",
        "level_text": "Exploration over schedules at ABCI-call granularity: the noisy replica serves generated CheckTx (the block's own txs before/at/after their delivery, fresh valid txs of all types, duplicates, garbage) and Query calls (all paths, heights past/latest/future/odd) before BeginBlock, between any two DeliverTx, before/after EndBlock and after Commit; every block result and app hash must equal the quiet replica's.",
        "level_note": "Interleaving is at the granularity Tendermint's local ABCI client gives (the application mutex serialises calls); data races inside a call are out of reach.",
        "quick": {"checks": 120, "timeout": 600},
        "thorough": {"checks": 400, "shards": 15, "timeout": 3000},
        "rule": "rapid-generated histories plus injected-call schedules; non-trivial = at least one injected CheckTx returned code 0 between BeginBlock and EndBlock (counted per tx type; staking/unstaking with >=3 validators counted separately); distinct = distinct (tx shape + injection shape) hashes",
        "assumptions": COMMON_ASSUME,
    },
    "C07": {
        "test": "TestC07", "level": "exploration", "engine": "twin",
        "technique": "property-based differential testing: continuous replica vs replica restarted at generated block boundaries",
        "level_text": "Exploration over histories x restart subsets: the second replica is stopped (all DB handles closed) and reopened from its directory at generated boundaries - forced with high probability right after blocks that changed stakes, validator membership or governance parameters and after every 10th block; Info after reopen must equal the last commit and every later block result must equal the continuous replica's.",
        "level_note": "Restart = orderly Stop() + reopen in the same process (crashes are C08).",
        "quick": {"checks": 100, "timeout": 600},
        "thorough": {"checks": 300, "shards": 15, "timeout": 3000},
        "rule": "rapid-generated histories with restart markers; non-trivial = a restart directly followed by a block whose outcome depends on rebuilt memory (validator proposal, staking with limiter, validator-set change, contract call); distinct = distinct (tx shape + restart positions) hashes",
        "assumptions": COMMON_ASSUME,
    },
    "C08": {
        "test": "TestC08", "level": "fault_enumeration", "engine": "twin",
        "technique": "fault enumeration over generated histories: every ABCI boundary and every durable write of Commit as a crash point, snapshot + reopen + replay",
        "level_text": "Fault enumeration: for rapid-generated histories, every crash point of the sampled blocks (quick) / of every block (thorough) is taken - before/after BeginBlock, after each DeliverTx, after EndBlock, after each of the 12-13 durable writes of Commit (named by store through the verifhook callback) and after Commit. The data directory is copied at that instant (what a killed process leaves), a new node is opened on the copy and must report a reconcilable height/hash, replay the interrupted block and follow the never-crashed replica's results for up to two more blocks.",
        "level_note": "Fault model is process death (no torn or reordered disk writes). Known finding F8: the points between the first and the last durable write fail on the unchanged tree in one specific mode; exactly that (point, mode) set is tolerated and counted, anything else alarms.",
        "quick": {"checks": 12, "timeout": 900},
        "thorough": {"checks": 40, "shards": 15, "timeout": 3000},
        "rule": "crash points enumerated per block of rapid-generated histories (5-14 blocks); evaluations = histories, extra.crash_points = examined points per label; non-trivial = a history with at least one examined crash point strictly inside Commit; distinct = distinct (tx shape, number of points) hashes",
        "assumptions": COMMON_ASSUME + ["no background writer touches the data directory while it is copied (goleveldb compaction does not run on these kilobyte-sized stores)"],
    },
    "C09": {
        "test": "TestC09", "level": "exploration", "engine": "fuzz",
        "technique": "property-based robustness testing: structured hostile transactions/queries and raw byte mutations (rapid), plus go native coverage-guided fuzzing in the thorough tier",
        "level_text": "Exploration: inside generated block histories more than half of the delivered txs are hostile envelopes (every field hostile: address lengths 0..40, 256-bit amounts, gas 0/2^63/2^64-1, types -3..12, payloads of the right or wrong type with hostile contents, option documents that are not JSON/nested/signed numbers, 5000-byte names), most of them correctly signed by a funded account with the right nonce and price so they reach the controllers, some byte-mutated; hostile CheckTx and Query calls (all paths incl. vm_call, data lengths 0..80, heights -2^63..2^63-1) are served inside and between blocks. Oracle: every call returns, no panic (recovered and reported), afterwards a canned valid transfer still succeeds and commits.",
        "level_note": "Protocol violations by the consensus engine itself (DeliverTx outside a block, wrong heights) are not external input and are not generated. vm_call needs rpc/core's environment; the harness installs a fake BlockStore knowing the headers it fed.",
        "quick": {"checks": 400, "timeout": 600},
        "thorough": {"checks": 3000, "shards": 15, "timeout": 3000},
        "rule": "rapid-generated histories with hostile DeliverTx/CheckTx/Query inputs; non-trivial = at least one delivered tx decoded and reached a controller (succeeded or failed late); labels count accepted hostile CheckTx and query answers per path; distinct = distinct (tx type,outcome) shape hashes",
        "assumptions": COMMON_ASSUME,
    },
}
