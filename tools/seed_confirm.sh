#!/bin/bash
# usage: tools/seed_confirm.sh <seed-out-dir> <name>
# Confirms an independently written breaking change in a scratch worktree: the demonstration passes on
# the unchanged tree, the patch applies and builds, the demonstration fails with it, the pinned baseline
# still passes with it. On success the change is stored under /verif/seeded/<name>/.
set -u
src=$(realpath "$1"); name=$2
export GOFLAGS=-mod=mod GOPROXY=off GOSUMDB=off GOTOOLCHAIN=local
wt=/tmp/mut/confirm-$name
git -C /repo worktree add -q --detach "$wt" HEAD || exit 2
trap 'git -C /repo worktree remove --force "$wt"' EXIT
python3 - "$src" "$wt" <<'PY'
import json, shutil, sys, os
src, wt = sys.argv[1], sys.argv[2]
m = json.load(open(src + "/meta.json"))
for f, dst in m["demo_files"].items():
    p = os.path.join(src, "demo", f) if not os.path.exists(os.path.join(src, f)) else os.path.join(src, f)
    os.makedirs(os.path.dirname(os.path.join(wt, dst)), exist_ok=True)
    shutil.copy(p, os.path.join(wt, dst))
open(wt + "/.demo_cmd", "w").write(m["demo_cmd"])
PY
cmd=$(cat "$wt/.demo_cmd")
echo "== demo on unchanged tree"; (cd "$wt" && bash -c "$cmd" > /tmp/mut/confirm-$name.pre.log 2>&1); pre=$?
echo "   exit $pre"
git -C "$wt" apply "$src/patch.diff" || { echo "patch does not apply"; exit 1; }
echo "== build with patch"; (cd "$wt" && go build ./...) || { echo "does not build"; exit 1; }
echo "== demo with patch"; (cd "$wt" && bash -c "$cmd" > /tmp/mut/confirm-$name.post.log 2>&1); post=$?
echo "   exit $post"
echo "== baseline with patch"; base=$(python3 /tmp/seedtools/baseline.py "$wt" 2>/dev/null | head -1); echo "   $base"
if [ $pre -eq 0 ] && [ $post -ne 0 ] && echo "$base" | grep -q "46/46"; then
  d=/verif/seeded/$name; mkdir -p "$d"; cp "$src/patch.diff" "$d/"; rm -rf "$d/demo"; cp -r "$src/demo" "$d/demo"
  python3 - "$src" "$d" "$pre" "$post" "$base" <<'PY'
import json, sys
src, d, pre, post, base = sys.argv[1:]
m = json.load(open(src + "/meta.json"))
m["confirmed"] = {"demo_exit_unchanged_tree": int(pre), "demo_exit_with_patch": int(post), "baseline_with_patch": base,
                  "how": "tools/seed_confirm.sh: scratch worktree of /repo HEAD; demo run before and after `git apply patch.diff`; go build ./...; the 46 pinned tests with the patch"}
json.dump(m, open(d + "/meta.json", "w"), indent=1)
PY
  echo "CONFIRMED -> $d"
else
  echo "NOT CONFIRMED"; tail -20 /tmp/mut/confirm-$name.pre.log /tmp/mut/confirm-$name.post.log
fi
