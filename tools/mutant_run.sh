#!/bin/bash
# usage: tools/mutant_run.sh <patch.diff> <ID> [<ID>...]
# Applies the patch to a scratch worktree of /repo (never to /repo itself), runs the named
# checks against it (VERIF_REPO), prints one line per check, removes the worktree.
# env: TIER (quick), VERIF_SEED, KEEP=1 keeps the worktree.
set -u
patch=$(realpath "$1"); shift
name=$(basename "$(dirname "$patch")")-$$
wt=/tmp/mut/$name
mkdir -p /tmp/mut
git -C /repo worktree add -q --detach "$wt" HEAD || exit 2
if ! git -C "$wt" apply "$patch"; then echo "patch does not apply"; git -C /repo worktree remove --force "$wt"; exit 2; fi
out=/tmp/verif-alt/$name
mkdir -p "$out"
for id in "$@"; do
  t0=$(date +%s)
  res=$(VERIF_REPO="$wt" VERIF_ALT_OUT="$out" /verif/check "$id" --tier "${TIER:-quick}" 2>"$out/$id.err"); rc=$?
  echo "mutant=$name check=$id rc=$rc $(( $(date +%s) - t0 ))s :: $(echo "$res" | grep -v KNOWN-FINDING | tail -1)"
  if [ $rc -eq 1 ]; then grep -h -m1 -o "C[0-9][0-9]: .*" "$out/$id.err" | cut -c1-400; fi
done
if [ -z "${KEEP:-}" ]; then git -C /repo worktree remove --force "$wt"; fi
