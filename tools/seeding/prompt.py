#!/usr/bin/env python3
import sys, json
pid, rnd, hint = sys.argv[1], sys.argv[2], (sys.argv[3] if len(sys.argv) > 3 else "")
prop = open('/tmp/seedtools/props/%s.json' % pid).read()
import os
used = open('/tmp/seedtools/used.txt').read() if os.path.exists('/tmp/seedtools/used.txt') else '(none)'
wt = "/tmp/wt/%s-%s" % (pid, rnd)
out = "/tmp/seed-out/%s-%s" % (pid, rnd)
print(f"""You are helping to evaluate a verification effort by planting a realistic, subtle defect in a Go code base.

The code base is rigochain/rigo-go (a Tendermint ABCI blockchain application: accounts, staking/delegation with rewards and slashing, on-chain governance, an EVM controller, IAVL-backed ledgers). You have your OWN scratch git worktree of it at {wt} . Work ONLY inside that directory (and {out} for your deliverables). Do NOT read, list or use anything under /verif, /repo, /root/.claude, /root/.vp or /tmp/seed-out of other runs - your work must be independent of them.

Below is one semantic property the code base is supposed to satisfy (JSON). Your job: design a CHANGE to the non-test source code in your worktree that BREAKS this property, while
  (1) the repository still compiles (go build ./... && go vet is not required),
  (2) the pinned existing test suite still passes: run `python3 /tmp/seedtools/baseline.py {wt}` - it must print 46/46,
  (3) the change looks like a plausible maintenance slip / refactoring / optimisation a real developer could make (no "if magic input then misbehave" back doors, no comments announcing the bug),
  (4) the breakage needs something SPECIFIC to manifest - e.g. a particular multi-step sequence of operations, an unusual (boundary) input, a restart/crash at a particular point, a particular interleaving of calls, or two cooperating sites that each look fine alone. Do NOT produce a change that ordinary use exposes at once (e.g. every transfer failing).{(' Preferred flavour for this one: ' + hint) if hint else ''}

Also deliver a DEMONSTRATION: a Go test (or small Go program) that drives the real code (e.g. node.RigoApp through InitChain/BeginBlock/DeliverTx/EndBlock/Commit/Query, or the concrete component the property is about) and FAILS with your change applied and PASSES on the unchanged worktree. Verify both directions yourself (use `git stash` or apply/revert the patch).

Environment (no network): prefix every go command with
  export GOFLAGS=-mod=mod GOPROXY=off GOSUMDB=off GOTOOLCHAIN=local
The default `go` (1.23) builds the repo. Everything must work offline. Some files carry `//go:build verif` hooks - ignore them (do not depend on that tag). Existing tests in node/, ctrlers/*, ledger/ show how to construct the components; ctrlers/gov's own test package is broken at init on this tree (ignore), and the multi-node tests under test/ are not part of the pinned suite. Other people run the same pinned suite concurrently on this machine and some of its tests use fixed shared /tmp paths: if baseline.py reports a failure in a package your change does not touch, simply re-run it.

Deliverables, all under {out}/ (create it):
  - patch.diff : `git diff` of your change to NON-test source only (must apply with `git apply` to a clean checkout of the same commit).
  - demo/ : the demonstration file(s), with their intended path relative to the repository root recorded in meta.json (e.g. "node/zz_seed_demo_test.go"), and the exact command that runs it.
  - meta.json : {{"property": "{pid}", "summary": "<what the change does>", "needs_to_manifest": "<what specific sequence/input/fault/interleaving is needed>", "demo_files": {{"<file in demo/>": "<path relative to repo root>"}}, "demo_cmd": "<command run from repo root>", "verified": "<what you ran and observed, both directions>"}}
When done, leave the worktree CLEAN of your change (git checkout -- . and remove the demo file from it) - only {out} matters. Finish with a short report: the idea of the change, what it needs to manifest, and the verification you did. Keep it to one change (one root cause; two cooperating edits are fine).

Ideas ALREADY USED by earlier participants (for this or other properties) - do something clearly different, in a different part of the code if possible:
{used}

PROPERTY:
{prop}
""")
