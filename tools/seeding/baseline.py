#!/usr/bin/env python3
"""usage: baseline.py <repo-dir>   -- runs the packages holding the 46 pinned tests and checks that all 46 pass"""
import json, os, subprocess, sys
repo = sys.argv[1]
base = json.load(open("/root/.vp/BASELINE.json"))
want = set(base["stable_pass"])
pkgs = sorted({w.split("::")[0] for w in want})
rel = ["./" + p.split("github.com/rigochain/rigo-go/")[1] for p in pkgs]
env = dict(os.environ, GOFLAGS="-mod=mod", GOPROXY="off", GOSUMDB="off", GOTOOLCHAIN="local")
r = subprocess.run(["go", "test", "-vet=off", "-count=1", "-json", "-timeout", "20m"] + rel, cwd=repo, env=env, capture_output=True, text=True)
passed = set()
for line in r.stdout.splitlines():
    try:
        ev = json.loads(line)
    except ValueError:
        continue
    if ev.get("Action") == "pass" and ev.get("Test") and "/" not in ev["Test"]:
        passed.add(ev["Package"] + "::" + ev["Test"])
missing = sorted(want - passed)
print("baseline: %d/%d pinned tests passed" % (len(want) - len(missing), len(want)))
if missing:
    print("MISSING:", missing)
    sys.stderr.write(r.stdout[-3000:] + r.stderr[-3000:])
    sys.exit(1)
