#!/usr/bin/env python3
"""Re-runs the stored independently written changes (seeded/<name>/patch.diff) against the check of their own
property on the current tree and harness: usage tools/seeded_matrix.py [-j N] [--seed S] [name-prefix ...]
Results go to seeded/results.json: {name: "caught (..s) <msg>" | "MISSED (..s)" | "patch does not apply" | "infra ..."}."""
import json, os, subprocess, sys, time, glob, concurrent.futures as cf

VERIF = os.path.dirname(os.path.dirname(os.path.abspath(__file__)))


def run_one(name, seed):
    chk = name[:3]
    wt = "/tmp/mut/s-" + name
    subprocess.run(["git", "-C", "/repo", "worktree", "remove", "--force", wt], capture_output=True)
    r = subprocess.run(["git", "-C", "/repo", "worktree", "add", "-q", "--detach", wt, "HEAD"], capture_output=True, text=True)
    if r.returncode != 0:
        return name, "infra: " + r.stderr[-200:]
    try:
        patch = os.path.join(VERIF, "seeded", name, "patch.diff")
        r = subprocess.run(["git", "-C", wt, "apply", patch], capture_output=True, text=True)
        if r.returncode != 0:
            r = subprocess.run(["git", "-C", wt, "apply", "--3way", patch], capture_output=True, text=True)
            if r.returncode != 0:
                return name, "patch does not apply to the current tree"
        out = "/tmp/verif-alt/s-" + name
        os.makedirs(out, exist_ok=True)
        env = dict(os.environ, VERIF_REPO=wt, VERIF_ALT_OUT=out, VERIF_SEED=str(seed))
        t0 = time.time()
        p = subprocess.run([os.path.join(VERIF, "check"), chk, "--tier", "quick"], capture_output=True, text=True, env=env)
        dt = time.time() - t0
        subprocess.run(["rm", "-rf", out])
        if p.returncode == 1 and "VIOLATION" in p.stdout:
            msg = ""
            for line in p.stderr.splitlines():
                if chk + ": " in line:
                    msg = line.split(chk + ": ", 1)[1][:140]
                    break
            via = [l.split("replay=")[1] for l in p.stdout.splitlines() if l.startswith("VIOLATION")]
            if via and all(os.path.basename(v).startswith("F") for v in via):
                msg = "[only by the regression replay %s] %s" % (",".join(os.path.basename(v) for v in via), msg)
            return name, "caught (%.0fs) %s" % (dt, msg)
        if p.returncode == 0:
            return name, "MISSED (%.0fs)" % dt
        return name, "infra rc=%s %s" % (p.returncode, p.stderr[-200:].replace("\n", " | "))
    finally:
        subprocess.run(["git", "-C", "/repo", "worktree", "remove", "--force", wt], capture_output=True)


def main():
    args = sys.argv[1:]
    jobs, seed, pref = 4, 1, []
    while args:
        a = args.pop(0)
        if a == "-j":
            jobs = int(args.pop(0))
        elif a == "--seed":
            seed = int(args.pop(0))
        else:
            pref.append(a)
    names = sorted(os.path.basename(os.path.dirname(p)) for p in glob.glob(os.path.join(VERIF, "seeded", "*", "patch.diff")))
    if pref:
        names = [n for n in names if any(n.startswith(p) for p in pref)]
    rp = os.path.join(VERIF, "seeded", "results.json")
    results = json.load(open(rp)) if os.path.exists(rp) else {}
    with cf.ThreadPoolExecutor(max_workers=jobs) as ex:
        for name, res in ex.map(lambda n: run_one(n, seed), names):
            results[name] = res
            print(name, res, flush=True)
            json.dump(results, open(rp, "w"), indent=1, sort_keys=True)


if __name__ == "__main__":
    main()
