#!/bin/bash
# usage: tools/gotest.sh <TestName> [extra test-binary args...]   (env VERIF_REPO, VERIF_* passed through)
# Builds the harness against ${VERIF_REPO:-/repo} and runs one test directly (for debugging).
set -e
export GOFLAGS=-mod=mod GOPROXY=off GOSUMDB=off GOTOOLCHAIN=local
d=$(mktemp -d /dev/shm/gt-XXXX); trap 'rm -rf $d' EXIT
sed "s#=> /repo#=> ${VERIF_REPO:-/repo}#" /verif/harness/go.mod > $d/go.mod; cp /verif/harness/go.sum $d/go.sum
(cd /verif/harness && go test -c -tags verif -vet=off -modfile $d/go.mod -o $d/h.test .)
t=$1; shift
mkdir -p $d/out $d/data $d/wd
cd $d/wd && VERIF_OUT=$d/out VERIF_SCRATCH=$d/data $d/h.test -test.run "^$t\$" -test.timeout 0 "$@"; rc=$?
[ -f $d/out/replay.json ] && cp $d/out/replay.json /tmp/last-replay.json
exit $rc
