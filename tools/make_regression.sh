#!/bin/bash
# usage: tools/make_regression.sh <finding-key> <fix-commit-in-/repo> <ID> [<ID>...]
# Produces the regression replay of a repaired finding: the fix is reverted in a scratch worktree of /repo,
# the check of each named property searches (quick tier, seeds 1..6) until it reports the violation, and the
# shrunk history is stored as replays/<ID>/<key>.json. Afterwards the stored history must pass on /repo.
set -u
key=$1; commit=$2; shift 2
wt=/tmp/mut/regress-$key
git -C /repo worktree remove --force "$wt" 2>/dev/null
git -C /repo worktree add -q --detach "$wt" HEAD || exit 2
trap 'git -C /repo worktree remove --force "$wt"; rm -rf /tmp/verif-alt/regress-'$key EXIT
git -C /repo show "$commit" -- . ':!*_test.go' | git -C "$wt" apply -R || { echo "cannot revert $commit"; exit 2; }
for id in "$@"; do
  found=""
  for seed in 1 2 3 4 5 6; do
    out=/tmp/verif-alt/regress-$key/$id-$seed; mkdir -p "$out"
    res=$(VERIF_REPO="$wt" VERIF_ALT_OUT="$out" VERIF_SEED=$seed /verif/check "$id" --tier quick 2>"$out/err")
    rp=$(echo "$res" | grep -o "VIOLATION property=$id replay=.*" | head -1 | sed 's/.*replay=//')
    if [ -n "$rp" ] && [ -f "$rp" ] && [[ "$rp" == *.json ]]; then found=$rp; break; fi
  done
  if [ -z "$found" ]; then echo "$key $id: no violation found with the fix reverted"; continue; fi
  mkdir -p /verif/replays/$id; cp "$found" /verif/replays/$id/$key.json
  echo "$key $id: seed $seed -> replays/$id/$key.json :: $(grep -h -m1 -o "$id: .*" "$out/err" | cut -c1-200)"
  /verif/check "$id" --replay /verif/replays/$id/$key.json > "$out/replay.out" 2>&1; echo "   on /repo: exit $? $(tail -1 "$out/replay.out")"
  VERIF_REPO="$wt" VERIF_ALT_OUT="$out" /verif/check "$id" --replay /verif/replays/$id/$key.json > "$out/replay2.out" 2>&1; echo "   with the fix reverted: exit $? $(grep -m1 VIOLATION "$out/replay2.out")"
done
