#!/usr/bin/env python3
"""Runs the hand-made mutants (mutants/index.json) against the checks expected to catch them.

usage: tools/mutant_matrix.py [-j N] [--tier quick] [name-prefix ...]
Every mutant is applied to its own scratch worktree of /repo (never /repo itself); results go to
mutants/results.json: {mutant: {check: "caught"|"MISSED"|"infra", ...}}.
"""
import json, os, subprocess, sys, time, concurrent.futures as cf

VERIF = os.path.dirname(os.path.dirname(os.path.abspath(__file__)))


def run_one(m, tier, seed):
    name = m["name"]
    wt = "/tmp/mut/m-" + name
    subprocess.run(["git", "-C", "/repo", "worktree", "remove", "--force", wt], capture_output=True)
    r = subprocess.run(["git", "-C", "/repo", "worktree", "add", "-q", "--detach", wt, "HEAD"], capture_output=True, text=True)
    if r.returncode != 0:
        return name, {"_": "infra: " + r.stderr[-200:]}
    res = {}
    try:
        r = subprocess.run(["git", "-C", wt, "apply", os.path.join(VERIF, "mutants", name + ".diff")], capture_output=True, text=True)
        if r.returncode != 0:
            return name, {"_": "patch does not apply"}
        out = "/tmp/verif-alt/m-" + name
        os.makedirs(out, exist_ok=True)
        for chk in m["expect"]:
            env = dict(os.environ, VERIF_REPO=wt, VERIF_ALT_OUT=out, VERIF_SEED=str(seed))
            t0 = time.time()
            p = subprocess.run([os.path.join(VERIF, "check"), chk, "--tier", tier], capture_output=True, text=True, env=env)
            dt = time.time() - t0
            if p.returncode == 1 and "VIOLATION" in p.stdout:
                msg = ""
                for line in p.stderr.splitlines():
                    if chk + ": " in line:
                        msg = line.split(chk + ": ", 1)[1][:160]
                        break
                via = [l.split("replay=")[1] for l in p.stdout.splitlines() if l.startswith("VIOLATION")]
                if via and all(os.path.basename(v).startswith("F") for v in via):
                    msg = "[only by the regression replay %s] %s" % (",".join(os.path.basename(v) for v in via), msg)
                res[chk] = "caught (%.0fs) %s" % (dt, msg)
            elif p.returncode == 0:
                res[chk] = "MISSED (%.0fs)" % dt
            else:
                res[chk] = "infra rc=%s %s" % (p.returncode, p.stderr[-300:].replace("\n", " | "))
    finally:
        subprocess.run(["git", "-C", "/repo", "worktree", "remove", "--force", wt], capture_output=True)
    return name, res


def main():
    args = sys.argv[1:]
    jobs, tier, seed, pref = 4, "quick", 1, []
    while args:
        a = args.pop(0)
        if a == "-j":
            jobs = int(args.pop(0))
        elif a == "--tier":
            tier = args.pop(0)
        elif a == "--seed":
            seed = int(args.pop(0))
        else:
            pref.append(a)
    idx = json.load(open(os.path.join(VERIF, "mutants", "index.json")))
    if pref:
        idx = [m for m in idx if any(m["name"].startswith(p) for p in pref)]
    rp = os.path.join(VERIF, "mutants", "results.json")
    results = json.load(open(rp)) if os.path.exists(rp) else {}
    with cf.ThreadPoolExecutor(max_workers=jobs) as ex:
        for name, res in ex.map(lambda m: run_one(m, tier, seed), idx):
            results[name] = res
            print(name, json.dumps(res), flush=True)
            json.dump(results, open(rp, "w"), indent=1, sort_keys=True)
    return 0


if __name__ == "__main__":
    sys.exit(main())
