#!/opt/veriftools/pyvenv/bin/python
import json, sys, glob, jsonschema
ms = json.load(open('/root/.vp/MANIFEST.schema.json'))
es = json.load(open('/root/.vp/EVIDENCE.schema.json'))
m = json.load(open('/verif/MANIFEST.json'))
jsonschema.validate(m, ms)
print("manifest ok:", len(m['checks']), "checks;", len(m.get('not_applicable', [])), "not applicable")
for f in sorted(glob.glob('/verif/evidence/*.json')):
    ev = json.load(open(f))
    jsonschema.validate(ev, es)
    print(" ", f, ev['tier'], ev['coverage']['evaluations'], ev['coverage']['distinct_nontrivial'], ev['wall_s'])
